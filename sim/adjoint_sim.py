"""adjoint_sim (C07, component level): multi-step forward histories through the library's
custom-VJP solves, then JAX's reverse sweep over the *shared mutable objective*; the cotangent
is compared with dense implicit-function-theorem propagation in numpy.

Real: optimism.inverse.NonlinearSolve (both rules), Objective, EquationSolver, WarmStart,
SparseCholesky.  Stub: sksparse.cholmod.
"""
import numpy as np

from sim import core, families, seams
from sim.solver_sim import lib as solver_lib

M = families.M


def lib():
    L = solver_lib()
    if 'adj' not in L:
        from optimism.inverse import NonlinearSolve as NS
        L['adj'] = dict(NS=NS)
    return L


def gen_program(rng, prop, tier, run_index):
    n = int(rng.choice([1, 2, 3, 5, 8]))
    fault_mode = bool(rng.random() < 0.4)
    cfg = {'family': 'Qc', 'n': n, 'cond': float(10.0 ** rng.uniform(0, 3)), 'cseed': int(rng.integers(0, 2**31)),
           'qscale': float(10.0 ** rng.uniform(-3, -0.5)), 'softplus': bool(rng.random() < 0.5),
           'nonlinear_p': bool(rng.random() < 0.8), 'precond': 'hess',
           'x0seed': int(rng.integers(0, 2**31)), 'x0scale': 1.0,
           'd': int(rng.integers(1, 5)), 'mapseed': int(rng.integers(0, 2**31)),
           'api': str(rng.choice(['with_state', 'design_only'], p=[0.6, 0.4])),
           'tight': bool(rng.random() < 0.5), 'fault_mode': fault_mode,
           'path_dependent': bool(rng.random() < 0.6),
           # magnitude of the cotangent (weight of the quantity of interest) and solver radius: the adjoint
           # solve must be linear in the cotangent whatever the forward trust-region settings are
           'qmag': float(10.0 ** rng.uniform(-2, 3)) if rng.random() < 0.6 else 1.0,
           'tr_size': float(10.0 ** rng.uniform(-2, 1)) if rng.random() < 0.4 else None}
    K = int(rng.integers(1, 6))
    ops = []
    for k in range(K):
        op = {'op': 'step', 'slots': sorted(set(int(s) for s in rng.choice([0, 1, 2, 4], size=int(rng.integers(1, 5))))),
              'mag': float(10.0 ** rng.uniform(-1.5, 0))}
        if fault_mode and rng.random() < 0.4:
            op['chol'] = [int(rng.choice([1, 3, 1023])) for _ in range(2)]
        ops.append(op)
    ops.append({'op': 'backward', 'clobber_p': bool(rng.random() < 0.5),
                'refresh_elsewhere': bool(fault_mode and rng.random() < 0.5),
                'chol': [int(rng.choice([1, 1023]))] if fault_mode and rng.random() < 0.5 else []})
    return {'engine': 'adjoint_sim', 'config': cfg, 'ops': ops}


def repair(program):
    ops = program['ops']
    if not ops or ops[-1]['op'] != 'backward' or not any(o['op'] == 'step' for o in ops):
        return None
    if any(o['op'] == 'backward' for o in ops[:-1]):
        return None
    return program


def simplify(program):
    cfg = program['config']
    for key, val in (('nonlinear_p', False), ('softplus', False), ('path_dependent', False), ('tight', True), ('d', 1),
                     ('qmag', 1.0), ('tr_size', None)):
        if cfg.get(key) != val:
            yield dict(program, config=dict(cfg, **{key: val}))
    for n in (1, 2):
        if n < cfg['n']:
            yield dict(program, config=dict(cfg, n=n))
    for i, op in enumerate(program['ops']):
        if op.get('chol'):
            yield _with(program, i, dict(op, chol=[]))
        if op.get('clobber_p'):
            yield _with(program, i, dict(op, clobber_p=False))
        if op.get('refresh_elsewhere'):
            yield _with(program, i, dict(op, refresh_elsewhere=False))
        if op['op'] == 'step' and len(op['slots']) > 1:
            for s in op['slots']:
                yield _with(program, i, dict(op, slots=[t for t in op['slots'] if t != s]))


def _with(program, i, op):
    ops = list(program['ops'])
    ops[i] = op
    return dict(program, ops=ops)


def run_program(program, ctx):
    L = lib()
    jax, jnp, NS, ES, OBJ = L['jax'], L['jnp'], L['adj']['NS'], L['ES'], L['OBJ']
    cfg = program['config']
    n, d = int(cfg['n']), int(cfg['d'])
    api = cfg['api']
    steps = [o for o in program['ops'] if o['op'] == 'step']
    back = [o for o in program['ops'] if o['op'] == 'backward'][0]
    K = len(steps)
    coefs = families.make_coefs(cfg)
    ev = families.Evaluator(coefs)
    jc = families.to_jax_coefs(coefs)
    rm = np.random.Generator(np.random.PCG64(int(cfg['mapseed'])))
    theta0 = rm.normal(size=d) * 0.5
    # per step affine maps theta -> parameter slots, and state map U_{k-1} -> state slot
    maps = []
    for k, op in enumerate(steps):
        mk = {}
        for s in (0, 1, 2):
            mk[s] = (rm.normal(size=M) * 0.3, rm.normal(size=(M, d)) * op['mag'])
        mk[4] = (float(rm.normal() * 0.3), rm.normal(size=d) * op['mag'])
        mk['S'] = rm.normal(size=(M, n)) * 0.5
        maps.append(mk)
    qw = [rm.normal(size=n) * float(cfg.get('qmag', 1.0)) for _ in range(K)]
    x0 = np.random.Generator(np.random.PCG64(int(cfg['x0seed']))).normal(size=n)
    plan = seams.chol_plan(ctx)
    monitor_off = True
    ctx.label('%s:n%d:K%d:%s' % (api, n, K, 'F' if cfg['fault_mode'] else 'N'))

    # objective (cached per n like the other engines; state reset)
    key = n
    if key not in L['objs']:
        with core.quiet_stdout():
            P0 = OBJ.Params(jnp.zeros(M), jnp.zeros(M), jnp.zeros(M), jc, jnp.asarray(0.0), None)
            L['objs'][key] = OBJ.Objective(L['f'], jnp.asarray(x0), P0, None)
    obj = L['objs'][key]
    hess, csc = L['hess'], L['csc']
    obj.precond = L['SC'].SparseCholesky()
    obj.precondStrategy = OBJ.PrecondStrategy(lambda x, p: csc(np.asarray(hess(x, p))))
    obj.scaling, obj.invScaling = 1.0, 1.0
    tight = bool(cfg['tight'])
    st = ES.get_settings(tol=1e-11 if tight else 1e-8, cg_inexact_solve_ratio=1e-10 if tight else 1e-5,
                         debug_info=False, max_cg_iters=max(50, 4 * n),
                         **({'tr_size': float(cfg['tr_size'])} if cfg.get('tr_size') else {}))

    def slot_values(k, theta, Uprev):
        """jax: parameter slots of step k as functions of theta and the previous solution."""
        mk, op = maps[k], steps[k]
        vals = {}
        for s in (0, 1, 2):
            a, B = mk[s]
            v = jnp.asarray(a)
            if s in op['slots']:
                v = v + jnp.asarray(B) @ theta
                if s == 1 and cfg['path_dependent'] and k > 0:
                    v = v + jnp.tanh(jnp.asarray(mk['S']) @ Uprev)
            vals[s] = v
        a, b = mk[4]
        vals[4] = jnp.asarray(a) + (jnp.asarray(b) @ theta if 4 in op['slots'] else 0.0)
        return vals

    def slot_values_np(k):
        """concrete slot values at theta0 (no dependence on earlier solutions): what a caller of
        the design-only API assigns to objective.p between steps."""
        mk, op = maps[k], steps[k]
        vals = {}
        for s in (0, 1, 2):
            a, B = mk[s]
            vals[s] = np.array(a) + (B @ theta0 if s in op['slots'] else 0.0)
        a, b = mk[4]
        vals[4] = float(a + (b @ theta0 if 4 in op['slots'] else 0.0))
        return vals


    def multi_step(theta, Uguess):
        U = Uguess
        total = 0.0
        Us = []
        for k in range(K):
            v = slot_values(k, theta, U)
            plan.masks = list(steps[k].get('chol', []))
            if api == 'with_state':
                p = OBJ.Params(v[0], v[1], v[2], jc, v[4], None)
                U = NS.nonlinear_solve_with_state(obj, st, U, p)
            else:
                # the older API: only the design slot is an argument; the caller moves the other
                # slots by assigning objective.p between calls (values, not tracers)
                vc = slot_values_np(k)
                obj.p = OBJ.Params(jnp.asarray(vc[0]), jnp.asarray(vc[1]), jnp.asarray(vc[2]), jc, jnp.asarray(vc[4]), None)
                U = NS.nonlinear_solve(obj, st, U, v[2])
            plan.masks = []
            Us.append(U)
            total = total + jnp.asarray(qw[k]) @ U
        return total, Us

    theta = jnp.asarray(theta0)
    try:
        with core.quiet_stdout():
            val, vjp_fn, Us = jax.vjp(multi_step, theta, jnp.asarray(x0), has_aux=True)
    except (core.RunTimeout, core.Violation):
        raise
    except Exception as e:
        ctx.violate('C07', 'exists/forward', 'forward pass through the differentiable solve raised %r' % e,
                    sig={'api': api, 'exc': type(e).__name__})
        return
    Us = [np.array(u, dtype=float) for u in Us]
    ctx.log.add('forward', val=float(val), U=np.concatenate(Us))
    ctx.sim_time += K
    # between forward and backward: what later work does to the shared objective
    if back.get('clobber_p'):
        r = np.random.Generator(np.random.PCG64(int(cfg['mapseed']) + 5))
        obj.p = OBJ.Params(jnp.asarray(r.normal(size=M)), jnp.asarray(r.normal(size=M)), jnp.asarray(r.normal(size=M)),
                           jc, jnp.asarray(float(r.normal())), None)
        ctx.fault('objective_p_overwritten_before_backward')
    if back.get('refresh_elsewhere'):
        plan.masks = list(back.get('chol', []))
        with core.quiet_stdout():
            obj.update_precond(jnp.asarray(Us[0] + 0.3))
        plan.masks = []
        ctx.fault('stale_precond')
    try:
        with core.quiet_stdout():
            gtheta, gU0 = vjp_fn(jnp.asarray(1.0))
    except (core.RunTimeout, core.Violation):
        raise
    except Exception as e:
        ctx.violate('C07', 'exists/backward', 'reverse pass raised %r' % e, sig={'api': api, 'exc': type(e).__name__})
        return
    gtheta, gU0 = np.array(gtheta, dtype=float), np.array(gU0, dtype=float)
    ctx.log.add('backward', g=gtheta, gU0=gU0)
    ctx.nontrivial = True
    ctx.require(core.finite(gtheta), 'C07', 'exists/finite', 'cotangent is not finite', sig={'api': api})
    ctx.require(np.all(gU0 == 0), 'C07', 'guess_cotangent_zero',
                lambda: 'cotangent of the initial guess is %s, must be zero (the solution does not depend on the guess)' % gU0,
                sig={'api': api})

    # ---- oracle: dense forward-mode IFT propagation in numpy
    th = theta0
    dU = np.zeros((n, d))
    grad_ref = np.zeros(d)
    err_bound = 0.0
    amp = 1.0
    ok_premise = True
    for k in range(K):
        mk, op = maps[k], steps[k]
        Uprev = Us[k - 1] if k > 0 else x0
        pnp = [None] * 6
        dps = {}
        for s in (0, 1, 2):
            a, B = mk[s]
            v = np.array(a)
            dv = np.zeros((M, d))
            if s in op['slots']:
                v = v + B @ th
                dv = dv + B
                if s == 1 and cfg['path_dependent'] and k > 0 and api == 'with_state':
                    t = np.tanh(mk['S'] @ Uprev)
                    v = v + t
                    dv = dv + ((1 - t**2)[:, None] * mk['S']) @ dU
            pnp[s], dps[s] = v, dv
        a, b = mk[4]
        pnp[4] = a + (b @ th if 4 in op['slots'] else 0.0)
        dps[4] = b if 4 in op['slots'] else np.zeros(d)
        if api == 'design_only':
            # only the design slot is differentiable through this API
            dps[0] = np.zeros((M, d))
            dps[1] = np.zeros((M, d))
            dps[4] = np.zeros(d)
        U = Us[k]
        H = ev.hess(U, pnp)
        w = np.linalg.eigvalsh(H)
        if not w[0] > 0:
            ok_premise = False
            break
        gnorm = np.linalg.norm(ev.grad(U, pnp))
        if gnorm > 10 * float(st.tol):
            ok_premise = False           # the forward solve did not converge: IFT premise false
            break
        rhs = np.zeros((n, d))
        Gn = 0.0
        for s in (0, 1, 2):
            G = ev.dgrad_dp(U, pnp, s)
            rhs += G @ dps[s]
            Gn += np.linalg.norm(G @ dps[s], 2)
        G4 = ev.dgrad_dp(U, pnp, 4)
        rhs += np.outer(G4, dps[4])
        Gn += np.linalg.norm(np.outer(G4, dps[4]), 2)
        dU = -np.linalg.solve(H, rhs)
        grad_ref += qw[k] @ dU
        # error model: adjoint CG residual <= max(cg_tol, ratio*|v|)
        vnorm = sum(np.linalg.norm(q) for q in qw) * amp
        rho = max(float(st.cg_tol), float(st.cg_inexact_solve_ratio) * vnorm)
        err_bound += rho / w[0] * Gn * amp * (w[-1] / w[0])
        amp *= 1.0 + np.linalg.norm(mk['S'], 2) * Gn / w[0]
    if not ok_premise:
        ctx.skip('C07.ift/premise')
        return
    scale = np.linalg.norm(grad_ref) + 1e-300
    tolc = 10 * err_bound + 1e-8 * scale + 1e-12
    err = float(np.linalg.norm(gtheta - grad_ref))
    ctx.probe('ift_compared')
    if tolc > 0.05 * scale:
        ctx.probe('ift_bound_loose')
    ctx.require(err <= tolc, 'C07', 'ift',
                lambda: 'cotangent %s differs from the dense implicit-function-theorem value %s by %.3g (bound %.3g)'
                % (np.array2string(gtheta, precision=6), np.array2string(grad_ref, precision=6), err, tolc),
                sig={'api': api, 'K': min(K, 2), 'clobbered': bool(back.get('clobber_p'))})


def cleanup():
    from sim import solver_sim
    solver_sim.cleanup()
