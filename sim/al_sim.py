"""al_sim (C04): load-step histories against the real augmented-Lagrangian solver and its
bound-constrained front end, with sub-solver caps, Cholesky failures and GMRES truncation.

Real: optimism.AlSolver, ConstrainedObjective, BoundConstrainedObjective, BoundConstrainedSolver,
NewtonSolver, EquationSolver, WarmStart, SparseCholesky.  Stub: sksparse.cholmod.
"""
import itertools

import numpy as np

from sim import core, families, seams
from sim.solver_sim import lib as solver_lib

MC = 6          # constraint slots; unused ones are made trivially inactive (c = 1 + 0.x)
_cache = {}


def lib():
    L = solver_lib()
    if 'al' not in L:
        from optimism import AlSolver, ConstrainedObjective, BoundConstrainedObjective, BoundConstrainedSolver
        from optimism import NewtonSolver
        jnp = L['jnp']

        def constraint(x, p):
            c = p.app_data
            dx = x[None, :] - c['cz']
            return c['cd'] + c['cC'] @ x + c['cE'] @ p.bc_data - 0.5 * c['cg'] * jnp.sum(dx * dx, axis=1) \
                + c['ceta'] * jnp.sin(c['cV'] @ x)
        L['al'] = dict(AL=AlSolver, CO=ConstrainedObjective, BCO=BoundConstrainedObjective,
                       BCS=BoundConstrainedSolver, NS=NewtonSolver, constraint=constraint, objs={})
    return L


CON_KEYS = ('cd', 'cC', 'cE', 'cg', 'cz', 'ceta', 'cV')


# ----------------------------------------------------------------------------
# generation
# ----------------------------------------------------------------------------

def gen_program(rng, prop, tier, run_index):
    fault_mode = bool(rng.random() < 0.45)
    n = int(rng.choice([2, 3, 5, 8]))
    m = int(rng.choice([1, 2, 3, 4, 6]))
    convex = bool(rng.random() < 0.65)
    cfg = {'family': 'Qc' if convex else 'Qi', 'n': n, 'm': m,
           'cond': float(10.0 ** rng.uniform(0, 2.5 if convex else 4)),
           'cseed': int(rng.integers(0, 2**31)), 'conseed': int(rng.integers(0, 2**31)),
           'nneg': 0 if convex else int(rng.integers(0, 2)), 'nzero': 0,
           'qscale': float(10.0 ** rng.uniform(-3, -0.5)), 'ascale': float(10.0 ** rng.uniform(-1, 0)),
           'wscale': 1.0, 'nonlinear_p': False, 'softplus': bool(rng.random() < 0.5),
           'ctypes': [str(rng.choice(['lin', 'lin', 'ball', 'nl'] if not convex else ['lin', 'lin', 'ball']))
                      for _ in range(m)],
           'situation': str(rng.choice(['generic', 'active', 'weak', 'redundant', 'infeasible_start'])),
           'x0seed': int(rng.integers(0, 2**31)), 'x0scale': float(10.0 ** rng.uniform(-1, 0.7)),
           'k0': float(rng.choice([1.0, 10.0])),
           'fault_mode': fault_mode, 'precond': str(rng.choice(['hess', 'none']))}
    if cfg['nneg'] > 0:
        cfg['qscale'] = max(cfg['qscale'], 1e-2)
    nops = int(rng.integers(1, 5))
    ops = []
    for k in range(nops):
        r = rng.random()
        if r < 0.75 or k == 0:
            al = {'tol': float(10.0 ** rng.uniform(-10, -6)),
                  'use_second_order_update': bool(rng.random() < 0.6),
                  'penalty_scaling': float(rng.choice([1.0, 2.0, 4.0, 10.0])),
                  'num_initial_low_order_iterations': int(rng.integers(0, 5)),
                  'target_constraint_decrease_factor': float(rng.uniform(0.3, 0.95)),
                  'max_al_iters': int(rng.choice([100, 30, 30]))}
            if rng.random() < 0.3:
                al = {}
            op = {'op': 'bound_solve' if rng.random() < 0.2 else 'al_solve',
                  'al': al, 'sub': {}, 'warm': bool(rng.random() < 0.5),
                  'dp0': (rng.normal(size=families.M) * float(10.0 ** rng.uniform(-2, 0))).tolist() if k > 0 or rng.random() < 0.5 else None,
                  'lam0': str(rng.choice(['zero', 'random', 'keep'])), 'lamseed': int(rng.integers(0, 2**31)),
                  'kappa0': float(10.0 ** rng.uniform(-1, 2)) if rng.random() < 0.6 else None}
            if rng.random() < 0.6:
                op['sub'] = {'tol': float(al.get('tol', 1e-8)) * float(rng.choice([1.0, 0.1, 10.0, 100.0]))}
            if k > 0 and rng.random() < 0.35:
                # re-solve from the converged point with the multipliers kept and a tiny parameter change
                op.update(lam0='keep', kappa0=None, warm=bool(rng.random() < 0.5),
                          dp0=(rng.normal(size=families.M) * 1e-7).tolist() if rng.random() < 0.7 else None)
            if fault_mode:
                r2 = rng.random()
                if r2 < 0.3:
                    op['sub'] = dict(op['sub'], max_trust_iters=int(rng.choice([1, 2, 4])))
                elif r2 < 0.5:
                    op['chol'] = [int(rng.choice([1, 3, 1023])) for _ in range(int(rng.integers(1, 4)))]
                elif r2 < 0.7:
                    op['al'] = dict(op['al'], max_gmres_iters=int(rng.choice([1, 2, 3])))
                elif r2 < 0.8:
                    op['sub'] = dict(op['sub'], max_cg_iters=int(rng.choice([1, 2])))
            ops.append(op)
        elif r < 0.9:
            ops.append({'op': 'restart'})
        else:
            ops.append({'op': 'refresh', 'chol': [int(rng.choice([0, 1, 1023]))] if fault_mode else []})
    return {'engine': 'al_sim', 'config': cfg, 'ops': ops}


def repair(program):
    return program if program['ops'] else None


def simplify(program):
    cfg = program['config']
    for key, val in (('situation', 'generic'), ('softplus', False), ('precond', 'hess'), ('k0', 1.0)):
        if cfg.get(key) != val:
            yield dict(program, config=dict(cfg, **{key: val}))
    if cfg['m'] > 1:
        yield dict(program, config=dict(cfg, m=cfg['m'] - 1, ctypes=cfg['ctypes'][:-1]))
    if any(t != 'lin' for t in cfg['ctypes']):
        yield dict(program, config=dict(cfg, ctypes=['lin'] * cfg['m']))
    for i, op in enumerate(program['ops']):
        for key in ('chol',):
            if op.get(key):
                o = dict(op)
                o.pop(key)
                yield _with(program, i, o)
        for key in ('al', 'sub'):
            if op.get(key):
                yield _with(program, i, dict(op, **{key: {}}))
                for k in list(op[key]):
                    d = dict(op[key])
                    d.pop(k)
                    yield _with(program, i, dict(op, **{key: d}))
        if op.get('warm'):
            yield _with(program, i, dict(op, warm=False))
        if op.get('kappa0') is not None:
            yield _with(program, i, dict(op, kappa0=None))
        if op.get('lam0') not in (None, 'zero'):
            yield _with(program, i, dict(op, lam0='zero'))
        if op.get('op') == 'bound_solve':
            yield _with(program, i, dict(op, op='al_solve'))


def _with(program, i, op):
    ops = list(program['ops'])
    ops[i] = op
    return dict(program, ops=ops)


# ----------------------------------------------------------------------------
# constraint coefficients + numpy evaluator
# ----------------------------------------------------------------------------

def make_constraints(cfg, ev, p0, x_ref):
    """Constraints c(x,p) >= 0 in MC slots.  Generated around the unconstrained minimiser x_ref so
    that the named situation occurs (active / weakly active / redundant / infeasible start)."""
    n, m = cfg['n'], cfg['m']
    rng = np.random.Generator(np.random.PCG64(int(cfg['conseed'])))
    cd, cC, cE = np.ones(MC), np.zeros((MC, n)), np.zeros((MC, families.M))
    cg, cz, ceta, cV = np.zeros(MC), np.zeros((MC, n)), np.zeros(MC), np.zeros((MC, n))
    sit = cfg['situation']
    for i in range(m):
        t = cfg['ctypes'][i]
        a = rng.normal(size=n)
        a /= np.linalg.norm(a)
        off = float(rng.normal())
        if sit == 'active':
            off = -abs(off) - 0.1           # x_ref violates: constraint will be active
        elif sit == 'weak' and i == 0:
            off = 0.0                        # passes exactly through x_ref: c*=0 and lam*=0
        elif sit == 'generic':
            off = off
        if t == 'lin':
            cC[i] = a
            cd[i] = -(a @ x_ref) + off
            cE[i] = rng.normal(size=families.M) * 0.2
            cd[i] -= cE[i] @ p0
        elif t == 'ball':
            r = abs(rng.normal()) + 0.5
            cg[i] = 1.0
            # centre so that x_ref is at signed distance `off` inside (+) / outside (-) the ball
            cz[i] = x_ref + a * (r - off)
            cd[i] = 0.5 * r * r
        else:
            cC[i] = a
            cd[i] = -(a @ x_ref) + off
            ceta[i] = 0.3 * rng.uniform(0.2, 1.0)
            cV[i] = rng.normal(size=n)
    if sit == 'redundant' and m >= 2:
        cC[m - 1], cd[m - 1], cE[m - 1] = cC[0], cd[0], cE[0]
        cg[m - 1], cz[m - 1], ceta[m - 1], cV[m - 1] = cg[0], cz[0], ceta[0], cV[0]
    return {'cd': cd, 'cC': cC, 'cE': cE, 'cg': cg, 'cz': cz, 'ceta': ceta, 'cV': cV}


class ConEval:
    def __init__(self, k):
        self.k = k

    def c(self, x, p0):
        k = self.k
        dx = x[None, :] - k['cz']
        return k['cd'] + k['cC'] @ x + k['cE'] @ p0 - 0.5 * k['cg'] * np.sum(dx * dx, axis=1) + k['ceta'] * np.sin(k['cV'] @ x)

    def J(self, x, p0):
        k = self.k
        dx = x[None, :] - k['cz']
        return k['cC'] - k['cg'][:, None] * dx + (k['ceta'] * np.cos(k['cV'] @ x))[:, None] * k['cV']

    def hess_lam(self, x, lam):
        """sum_i lam_i * Hessian(c_i)(x)"""
        k = self.k
        n = x.size
        H = -np.sum(lam * k['cg']) * np.eye(n)
        H = H - (k['cV'].T * (lam * k['ceta'] * np.sin(k['cV'] @ x))) @ k['cV']
        return H

    def mag(self, x, p0):
        k = self.k
        dx = x[None, :] - k['cz']
        return np.abs(k['cd']) + np.abs(k['cC']) @ np.abs(x) + np.abs(k['cE']) @ np.abs(p0) + 0.5 * k['cg'] * np.sum(dx * dx, axis=1) + np.abs(k['ceta'])


# ----------------------------------------------------------------------------
# the application
# ----------------------------------------------------------------------------

class App:
    def __init__(self, program, ctx):
        L = lib()
        self.L, self.ctx = L, ctx
        self.cfg = cfg = program['config']
        self.n, self.m = int(cfg['n']), int(cfg['m'])
        jnp = L['jnp']
        self.coefs = families.make_coefs(cfg)
        self.ev = families.Evaluator(self.coefs)
        rng = np.random.Generator(np.random.PCG64(int(cfg['x0seed'])))
        self.pnp = [rng.normal(size=families.M) * 0.3, np.zeros(families.M), np.zeros(families.M), None, 0.0, None]
        xs, ok = self.ev.minimiser(self.pnp) if cfg['family'] == 'Qc' else (np.zeros(self.n), True)
        if not ok:
            xs = np.zeros(self.n)
        self.con = make_constraints(cfg, self.ev, self.pnp[0], xs)
        self.cev = ConEval(self.con)
        x0 = xs + rng.normal(size=self.n) * float(cfg['x0scale'])
        if cfg['situation'] == 'infeasible_start':
            ctx.probe('start:' + ('infeasible' if np.any(self.cev.c(x0, self.pnp[0])[:self.m] < 0) else 'feasible'))
        self.x = x0
        self.jc = families.to_jax_coefs(self.coefs)
        self.jc.update({k: jnp.asarray(self.con[k], dtype=jnp.float64) for k in CON_KEYS})
        self.plan = seams.chol_plan(ctx)
        self.gm = seams.KrylovSeam(L['al']['NS'].gmres, ctx, 'gmres')
        seams.patch(L['al']['NS'], 'gmres', self.gm)
        self.cgseam = seams.KrylovSeam(L['WS'].cg, ctx, 'ws_cg')
        seams.patch(L['WS'], 'cg', self.cgseam)
        self.lam = np.zeros(MC)
        self.make_objective()

    def P(self, pnp=None):
        pnp = self.pnp if pnp is None else pnp
        jnp = self.L['jnp']
        return self.L['OBJ'].Params(jnp.asarray(pnp[0]), jnp.asarray(pnp[1]), jnp.asarray(pnp[2]),
                                    self.jc, jnp.asarray(pnp[4], dtype=jnp.float64), None)

    def make_objective(self):
        L = self.L
        A = L['al']
        jnp = L['jnp']
        key = (self.n, self.cfg['k0'])
        if key not in A['objs']:
            with core.quiet_stdout():
                A['objs'][key] = A['CO'].ConstrainedObjective(
                    L['f'], A['constraint'], jnp.asarray(self.x), self.P(), jnp.zeros(MC),
                    self.cfg['k0'] * jnp.ones(MC), None)
            self.ctx.probe('constrained_objective_constructed')
        obj = A['objs'][key]
        obj.p = self.P()
        obj.lam = jnp.asarray(self.lam)
        obj.kappa = jnp.array(obj.constraintKappa)
        obj.precond = L['SC'].SparseCholesky()
        if self.cfg['precond'] == 'none':
            obj.precondStrategy = None
        else:
            hs = obj.jit_hess
            csc = L['csc']

            class Strat:
                def initialize(s, x, p, lam, kappa):
                    s.K = csc(np.asarray(hs(x, p, lam, kappa)))

                def precond_at_attempt(s, attempt):
                    if attempt == 0:
                        return s.K
                    from scipy.sparse import diags
                    return s.K + diags(pow(10, (-5 + attempt)) * np.abs(s.K.diagonal()), 0, format='csc')
            obj.precondStrategy = Strat()
        self.obj = obj
        self.have_precond = False

    def refresh(self, op):
        self.plan.masks = list(op.get('chol', []))
        with core.quiet_stdout():
            self.obj.update_precond(self.L['jnp'].asarray(self.x))
        self.plan.masks = []
        self.have_precond = True
        self.ctx.label('refresh')

    def restart(self):
        self.ctx.fault('restart')
        self.lam = np.asarray(self.obj.lam, dtype=float)
        self.make_objective()
        self.refresh({})
        self.ctx.label('restart')

    # -- the AL solve op -------------------------------------------------------------
    def al_solve(self, op):
        ctx, L = self.ctx, self.L
        A, jnp = L['al'], L['jnp']
        if op.get('op') == 'bound_solve':
            return self.bound_solve(op)
        obj = self.obj
        pnew = list(self.pnp)
        if op.get('dp0') is not None:
            pnew[0] = self.pnp[0] + np.asarray(op['dp0'])
        Pnew = self.P(pnew)
        if op.get('lam0') == 'zero':
            obj.lam = jnp.zeros(MC)
        elif op.get('lam0') == 'random':
            r = np.random.Generator(np.random.PCG64(int(op['lamseed'])))
            obj.lam = jnp.asarray(np.abs(r.normal(size=MC)) * (np.arange(MC) < self.m))
        if op.get('kappa0') is not None:
            obj.kappa = float(op['kappa0']) * jnp.ones(MC)
        else:
            obj.kappa = jnp.array(obj.constraintKappa)
        als = A['AL'].get_settings(**(op.get('al') or {}))
        subs = L['ES'].get_settings(**dict(op.get('sub') or {}, debug_info=False))
        if not self.have_precond:
            self.refresh({})
        self.plan.masks = list(op.get('chol', []))
        self.gm.calls = []
        hist = []
        if any(k.startswith('max_') for k in (op.get('sub') or {})) or 'max_gmres_iters' in (op.get('al') or {}):
            ctx.fault('cap')

        def callback(x, p):
            lam = np.array(obj.lam, dtype=float)
            kap = np.array(obj.kappa, dtype=float)
            hist.append((lam, kap))
            ctx.log.add('outer', k=len(hist), x=np.asarray(x), lam=lam, kappa=kap)
            ctx.require(np.all(lam >= 0), 'C04', 'iter/lam_nonneg',
                        lambda: 'multiplier %.3g < 0 after outer iteration %d' % (lam.min(), len(hist) - 1),
                        sig={'second_order': bool(als.use_second_order_update)})
            if len(hist) > 1:
                ctx.require(np.all(kap >= hist[-2][1]), 'C04', 'iter/kappa_monotone',
                            lambda: 'a penalty parameter decreased: %s -> %s' % (hist[-2][1], kap))
        raised = None
        try:
            with core.quiet_stdout():
                xr = A['AL'].augmented_lagrange_solve(obj, jnp.asarray(self.x), Pnew, als, subs,
                                                      callback=callback, useWarmStart=bool(op.get('warm')),
                                                      updatePrecond=True)
        except (core.RunTimeout, core.Violation):
            raise
        except NameError as e:
            raised = e
        except Exception as e:
            ctx.violate('C04', 'completes', 'solver raised %r' % e, sig={'exc': type(e).__name__})
            return
        finally:
            self.plan.masks = []
        ctx.sim_time += len(hist)
        self.pnp = pnew
        ctx.require(all(a is b for a, b in zip(obj.p, Pnew)), 'C19', 'handover/objective_p',
                    'AL solver: objective does not carry the parameters that were passed', sig={'driver': 'al'})
        if raised is not None:
            ctx.count('probes', 'al:raised_not_converged')
            ctx.log.add('al_raise')
            ctx.label('al:raise')
            # caller keeps its old x; multipliers stay as the solver left them, clipped by the caller
            obj.lam = jnp.maximum(obj.lam, 0.0)
            return
        ctx.nontrivial = True
        xr = np.array(xr, dtype=float)
        lam = np.array(obj.lam, dtype=float)
        kap = np.array(obj.kappa, dtype=float)
        k0 = np.array(obj.constraintKappa, dtype=float)
        ctx.log.add('al_return', x=xr, lam=lam, kappa=kap)
        self.audit_kkt(xr, lam, kap, k0, pnew, float(als.tol), 'al', scale=None)
        self.x = xr
        ctx.label('al:ok:%s' % ('2nd' if als.use_second_order_update else '1st'))

    def audit_kkt(self, x, lam, kap, k0, pnew, tol, driver, scale):
        """C04-2 and C04-3 at a normal return."""
        ctx, ev, cev = self.ctx, self.ev, self.cev
        m = len(lam)
        sig = {'driver': driver}
        if not (core.finite(x) and core.finite(lam)):
            ctx.violate('C04', 'kkt/finite', 'returned point or multipliers not finite', sig=sig)
            return
        p0 = pnew[0]
        c = cev.c(x, p0)
        J = cev.J(x, p0)
        g = ev.grad(x, pnew)
        cmag = cev.mag(x, p0)
        ctx.require(np.all(lam >= 0), 'C04', 'kkt/lam_nonneg', lambda: 'returned multiplier %.3g < 0' % lam.min(), sig=sig)
        viol = -c - tol / k0 * (1 + 1e-6) - 1e3 * core.EPS * cmag
        if np.any(viol > 0):
            # is the constraint set itself inconsistent?  (phase-1: minimise the squared violation from several starts)
            sig = dict(sig, feasible_set_empty=self.feasible_set_empty(x, p0))
        ctx.require(np.all(viol <= 0), 'C04', 'kkt/feasible',
                    lambda: 'constraint %d = %.6g violated beyond tol/kappa0 = %.3g' % (int(np.argmax(viol)), c[int(np.argmax(viol))], tol / k0[int(np.argmax(viol))]), sig=sig)
        ratio = float(np.max(np.maximum(kap / k0, 1.0)))
        normJ = float(np.linalg.norm(J, 2))
        lag = g - J.T @ lam
        lagmag = np.linalg.norm(ev.grad_mag(x, pnew)) + np.linalg.norm(np.abs(J).T @ np.abs(lam))
        b1 = tol * (1 + 2 * np.sqrt(m) * ratio * normJ) * (1 + 1e-6) + 1e3 * core.EPS * lagmag
        ctx.require(np.linalg.norm(lag) <= b1, 'C04', 'kkt/stationarity',
                    lambda: '|grad f - J^T lam| = %.6g exceeds the bound %.6g implied by the termination test (tol %.3g)'
                    % (np.linalg.norm(lag), b1, tol), sig=sig)
        comp = np.abs(lam * c)
        b3 = np.maximum(lam, k0 * np.abs(c)) * tol / ((2 - np.sqrt(2)) * k0) * (1 + 1e-6) + 1e3 * core.EPS * np.abs(lam) * cmag
        ctx.require(np.all(comp <= b3), 'C04', 'kkt/complementarity',
                    lambda: 'lam_i c_i = %.6g exceeds bound %.6g' % (comp[int(np.argmax(comp - b3))], b3[int(np.argmax(comp - b3))]), sig=sig)
        # the solver's own stated criterion, re-evaluated independently: |[grad_x L_A ; FB(kappa0 c, lam)]| < tol
        gLA = g - J.T @ np.maximum(lam - kap * c, 0.0)
        ck = k0 * c
        fb = np.sqrt(ck * ck + lam * lam) - ck - lam
        resn = float(np.sqrt(gLA @ gLA + fb @ fb))
        rslack = 1e3 * core.EPS * (lagmag + np.linalg.norm(np.abs(J).T @ (kap * cmag)) + np.linalg.norm(k0 * cmag + np.abs(lam)))
        ctx.require(resn <= tol * (1 + 1e-6) + rslack, 'C04', 'kkt/termination_residual',
                    lambda: 'norm of [Lagrangian gradient; Fischer-Burmeister residual] at the returned point is %.6g, requested tolerance %.6g'
                    % (resn, tol), sig=sig)
        # --- convex clause
        cfg = self.cfg
        if cfg['family'] != 'Qc' or any(t == 'nl' for t in cfg['ctypes']):
            return
        ref = self.reference(x, pnew)
        if ref is None:
            ctx.skip('C04.convex/no_verified_reference')
            return
        xs, ls = ref
        mu = ev.strong_convexity()
        e1 = float(np.linalg.norm(lag))
        e2 = float(np.max(np.maximum(-c, 0.0)))
        e3 = float(np.sum(comp))
        r_bound = (e1 + np.sqrt(e1 * e1 + 4 * mu * (e3 + e2 * np.sum(np.abs(ls))))) / (2 * mu)
        r_bound = r_bound * (1 + 1e-3) + 1e-9 * (1 + np.linalg.norm(xs))
        d = float(np.linalg.norm(x - xs))
        ctx.require(d <= r_bound, 'C04', 'convex/minimiser',
                    lambda: 'returned point is %.6g from the unique constrained minimiser (bound %.6g from its own KKT residuals)' % (d, r_bound), sig=sig)

    def feasible_set_empty(self, x, p0):
        from scipy.optimize import minimize
        cev, m = self.cev, self.m

        def phi(y):
            v = np.minimum(cev.c(y, p0)[:m], 0.0)
            return float(v @ v)

        def dphi(y):
            cc = cev.c(y, p0)
            v = np.minimum(cc, 0.0)
            v[m:] = 0.0
            return 2.0 * cev.J(y, p0).T @ v
        best = np.inf
        rs = np.random.Generator(np.random.PCG64(12345))
        for y0 in [np.array(x, dtype=float), np.zeros(self.n)] + [rs.normal(size=self.n) * 3 for _ in range(6)]:
            try:
                r = minimize(phi, y0, jac=dphi, method='BFGS', options={'maxiter': 500, 'gtol': 1e-12})
                best = min(best, float(r.fun))
            except Exception:
                pass
        return bool(best > 1e-10)

    def reference(self, x, pnew):
        """Unique minimiser of the convex problem by active-set enumeration with dense Newton-KKT,
        accepted only if its own KKT conditions verify to 1e-9."""
        ev, cev, m = self.ev, self.cev, self.m
        p0 = pnew[0]
        c0 = cev.c(x, p0)[:m]
        guess = tuple(i for i in range(m) if c0[i] < 1e-6)
        sets = [guess] + [s for k in range(m + 1) for s in itertools.combinations(range(m), k) if s != guess]
        for S in sets[:65]:
            S = list(S)
            y = np.array(x, dtype=float)
            lam = np.zeros(len(S))
            ok = False
            for _ in range(60):
                g = ev.grad(y, pnew)
                Jf = cev.J(y, p0)
                cf = cev.c(y, p0)
                JS, cS = Jf[S], cf[S]
                lamfull = np.zeros(MC)
                lamfull[S] = lam
                H = ev.hess(y, pnew) - cev.hess_lam(y, lamfull)
                r1 = g - JS.T @ lam
                res = np.concatenate([r1, cS])
                if np.linalg.norm(res) < 1e-11 * (1 + np.linalg.norm(ev.grad_mag(y, pnew))):
                    ok = True
                    break
                Kmat = np.block([[H, -JS.T], [JS, np.zeros((len(S), len(S)))]])
                try:
                    d = np.linalg.solve(Kmat, -res)
                except np.linalg.LinAlgError:
                    break
                if not np.all(np.isfinite(d)):
                    break
                y = y + d[:self.n]
                lam = lam + d[self.n:]
            if not ok:
                continue
            cf = cev.c(y, p0)
            if np.all(cf[:m] >= -1e-9) and np.all(lam >= -1e-9):
                lamfull = np.zeros(MC)
                lamfull[S] = np.maximum(lam, 0)
                return y, lamfull
        return None

    # -- bound-constrained front end ---------------------------------------------------
    def bound_solve(self, op):
        """x_i >= 0 on a seeded index set, through BoundConstrainedObjective / bound_constrained_solve."""
        ctx, L = self.ctx, self.L
        A, jnp = L['al'], L['jnp']
        n = self.n
        rng = np.random.Generator(np.random.PCG64(int(op['lamseed'])))
        idx = np.sort(rng.choice(n, size=max(1, n // 2), replace=False))
        pnew = list(self.pnp)
        if op.get('dp0') is not None:
            pnew[0] = self.pnp[0] + np.asarray(op['dp0'])
        x0 = np.abs(self.x) + 0.1
        hess, csc = L['hess'], L['csc']
        strat = L['OBJ'].PrecondStrategy(lambda x, p: csc(np.asarray(hess(x, p)))) if self.cfg['family'] == 'Qc' else None
        try:
            with core.quiet_stdout():
                bobj = A['BCO'].BoundConstrainedObjective(L['f'], jnp.asarray(x0), self.P(), jnp.asarray(idx),
                                                          constraintStiffnessScaling=float(rng.choice([1.0, 4.0])),
                                                          precondStrategy=strat)
        except (core.RunTimeout, core.Violation):
            raise
        except Exception as e:
            ctx.violate('C04', 'completes', 'BoundConstrainedObjective raised %r' % e, sig={'exc': type(e).__name__})
            return
        als = A['AL'].get_settings(**(op.get('al') or {}))
        subs = L['ES'].get_settings(**dict(op.get('sub') or {}, debug_info=False))
        # the front end resets kappa on entry; set a stale value to see that it does
        bobj.kappa = 7.0 * jnp.ones(len(idx))
        hist = []

        def callback(x, p):
            lam, kap = np.array(bobj.lam, dtype=float), np.array(bobj.kappa, dtype=float)
            hist.append((lam, kap))
            ctx.log.add('outer_b', k=len(hist), lam=lam, kappa=kap)
            ctx.require(np.all(lam >= 0), 'C04', 'iter/lam_nonneg',
                        lambda: 'bound front end: multiplier %.3g < 0 after outer iteration %d' % (lam.min(), len(hist) - 1),
                        sig={'second_order': bool(als.use_second_order_update)})
            if len(hist) > 1:
                ctx.require(np.all(kap >= hist[-2][1]), 'C04', 'iter/kappa_monotone',
                            lambda: 'bound front end: a penalty parameter decreased')
        Pnew = self.P(pnew)
        self.plan.masks = list(op.get('chol', []))
        raised = None
        try:
            with core.quiet_stdout():
                xr = A['BCS'].bound_constrained_solve(bobj, jnp.asarray(x0), Pnew, als, subs, callback=callback,
                                                      useWarmStart=bool(op.get('warm')), updatePrecond=True)
        except (core.RunTimeout, core.Violation):
            raise
        except NameError as e:
            raised = e
        except Exception as e:
            ctx.violate('C04', 'completes', 'bound-constrained solver raised %r' % e, sig={'exc': type(e).__name__})
            return
        finally:
            self.plan.masks = []
        ctx.sim_time += len(hist)
        ctx.require(all(a is b for a, b in zip(bobj.p, Pnew)), 'C19', 'handover/objective_p',
                    'bound-constrained solver: objective does not carry the parameters that were passed',
                    sig={'driver': 'bound'})
        self.pnp = pnew
        if raised is not None:
            ctx.count('probes', 'bound:raised_not_converged')
            ctx.label('bound:raise')
            return
        ctx.nontrivial = True
        xr = np.array(xr, dtype=float)
        S = np.asarray(bobj.scaling, dtype=float) * np.ones(n)
        lam = np.array(bobj.lam, dtype=float)          # multipliers of the scaled problem
        kap = np.array(bobj.kappa, dtype=float)
        k0 = np.array(bobj.constraintKappa, dtype=float)
        ctx.log.add('bound_return', x=xr, lam=lam)
        tol = float(als.tol)
        ev = self.ev
        sig = {'driver': 'bound'}
        # KKT in the scaled variable xBar = S x : constraints xBar_i >= 0, gradient S^-1 grad f
        xb = S * xr
        c = xb[idx]
        g = ev.grad(xr, pnew) / S
        ctx.require(np.all(lam >= 0), 'C04', 'kkt/lam_nonneg', 'bound front end: negative multiplier returned', sig=sig)
        ctx.require(np.all(c >= -tol / k0 * (1 + 1e-6) - 1e3 * core.EPS * np.abs(c)), 'C04', 'kkt/feasible',
                    lambda: 'bound violated: scaled x = %.6g < -tol/kappa0' % c.min(), sig=sig)
        lag = g.copy()
        lag[idx] -= lam
        ratio = float(np.max(np.maximum(kap / k0, 1.0)))
        b1 = tol * (1 + 2 * np.sqrt(len(idx)) * ratio) * (1 + 1e-6) + 1e3 * core.EPS * np.linalg.norm(ev.grad_mag(xr, pnew) / S)
        ctx.require(np.linalg.norm(lag) <= b1, 'C04', 'kkt/stationarity',
                    lambda: 'bound front end: |grad - lam| = %.6g exceeds %.6g' % (np.linalg.norm(lag), b1), sig=sig)
        comp = np.abs(lam * c)
        b3 = np.maximum(lam, k0 * np.abs(c)) * tol / ((2 - np.sqrt(2)) * k0) * (1 + 1e-6) + 1e-300
        ctx.require(np.all(comp <= b3), 'C04', 'kkt/complementarity',
                    lambda: 'bound front end: lam_i x_i = %.6g exceeds %.6g' % (comp[int(np.argmax(comp - b3))], b3[int(np.argmax(comp - b3))]), sig=sig)
        gLA = g.copy()
        gLA[idx] -= np.maximum(lam - kap * c, 0.0)
        ck = k0 * c
        fb = np.sqrt(ck * ck + lam * lam) - ck - lam
        resn = float(np.sqrt(gLA @ gLA + fb @ fb))
        rslack = 1e3 * core.EPS * (np.linalg.norm(ev.grad_mag(xr, pnew) / S) + np.linalg.norm(kap * np.abs(c) + np.abs(lam)))
        ctx.require(resn <= tol * (1 + 1e-6) + rslack, 'C04', 'kkt/termination_residual',
                    lambda: 'bound front end: norm of [Lagrangian gradient; Fischer-Burmeister residual] at the returned point is %.6g, requested tolerance %.6g'
                    % (resn, tol), sig=sig)
        ctx.label('bound:ok')


def run_program(program, ctx):
    app = App(program, ctx)
    cfg = program['config']
    ctx.label('%s:n%d:m%d:%s:%s' % (cfg['family'], cfg['n'], cfg['m'], cfg['situation'], 'F' if cfg['fault_mode'] else 'N'))
    for i, op in enumerate(program['ops']):
        ctx.op_index = i
        ctx.log.add('op', i=i, name=op['op'])
        if op['op'] in ('al_solve', 'bound_solve'):
            app.al_solve(op)
        elif op['op'] == 'restart':
            app.restart()
        elif op['op'] == 'refresh':
            app.refresh(op)


def cleanup():
    from sim import solver_sim
    solver_sim.cleanup()
