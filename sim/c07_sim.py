"""C07 multiplexer: most runs go to adjoint_sim (component level: both custom-VJP rules on
synthetic energies); every 16th run index goes to fe_app_sim in statics mode with the
FE-level helper-VJP / adjoint-function-space audit switched on."""
from sim import adjoint_sim, fe_app_sim

FE_EVERY = {'quick': 48, 'thorough': 16}


def gen_program(rng, prop, tier, run_index):
    if run_index % FE_EVERY.get(tier, 48) == 7:
        return fe_app_sim.gen_program(rng, 'C07', tier, run_index)
    return adjoint_sim.gen_program(rng, prop, tier, run_index)


def _eng(program):
    return fe_app_sim if program.get('engine') == 'fe_app_sim' else adjoint_sim


def run_program(program, ctx):
    return _eng(program).run_program(program, ctx)


def repair(program):
    return _eng(program).repair(program)


def simplify(program):
    return _eng(program).simplify(program)


def cleanup():
    adjoint_sim.cleanup()
    fe_app_sim.cleanup()
