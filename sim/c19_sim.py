"""C19 multiplexer.  The third clause of C19 (after a load step the objective carries the new
parameters and the flag refers to them) is stated for all four drivers.  Most runs are solver_sim
load-step histories (nonlinear_equation_solve, warm start, scaled replica); every 12th run index is
an al_sim history (augmented_lagrange_solve / bound_constrained_solve) and every 12th an spg_sim
history (TrustRegionSPG.solve), whose hand-over assertions raise C19 violations."""
from sim import solver_sim, al_sim, spg_sim

EVERY = 12


def gen_program(rng, prop, tier, run_index):
    if run_index % EVERY == 5:
        return al_sim.gen_program(rng, prop, tier, run_index)
    if run_index % EVERY == 11:
        p = spg_sim.gen_program(rng, prop, tier, run_index)
        # make sure the SPG driver with a parameter change is exercised
        if not any(o['op'] == 'spg_solve' for o in p['ops']):
            p['ops'].append({'op': 'spg_solve', 'settings': {}, 'dp0': [0.01, -0.02, 0.005], 'warm': False, 'upd': True})
        return p
    return solver_sim.gen_program(rng, prop, tier, run_index)


def _eng(program):
    return {'al_sim': al_sim, 'spg_sim': spg_sim}.get(program.get('engine'), solver_sim)


def run_program(program, ctx):
    return _eng(program).run_program(program, ctx)


def repair(program):
    return _eng(program).repair(program)


def simplify(program):
    return _eng(program).simplify(program)


def cleanup():
    solver_sim.cleanup()
