"""Core of the deterministic simulator: seeds, event log, violations, shrinking.

Everything an engine needs that is not specific to one part of optimism lives here.
Nothing in this file imports jax or optimism, so the driver can use it cheaply.
"""
import hashlib
import json
import math
import os
import signal
import sys
import time
import traceback
import zlib

import numpy as np

VERIF_DIR = os.path.dirname(os.path.dirname(os.path.abspath(__file__)))
REPO_DIR = os.environ.get('VERIF_REPO', '/repo')


# ----------------------------------------------------------------------------
# seeds
# ----------------------------------------------------------------------------

def rng_for(seed, prop, run_index, stream=0):
    """The one PRNG of a run: a pure function of (seed, property id, run index)."""
    ss = np.random.SeedSequence([int(seed) & 0xFFFFFFFF, zlib.crc32(prop.encode()),
                                 int(run_index), int(stream)])
    return np.random.Generator(np.random.PCG64(ss))


# ----------------------------------------------------------------------------
# canonical JSON: floats are written with repr (exact round trip), arrays as lists
# ----------------------------------------------------------------------------

def plain(o):
    """numpy / jax values -> plain python, recursively (exact for float64)."""
    if isinstance(o, dict):
        return {str(k): plain(v) for k, v in o.items()}
    if isinstance(o, (list, tuple)):
        return [plain(v) for v in o]
    if isinstance(o, (bool, np.bool_)):
        return bool(o)
    if isinstance(o, (int, np.integer)):
        return int(o)
    if isinstance(o, (float, np.floating)):
        return float(o)
    if isinstance(o, str) or o is None:
        return o
    if hasattr(o, 'shape') and hasattr(o, 'dtype'):
        a = np.asarray(o)
        if a.ndim == 0:
            return plain(a.item())
        return plain(a.tolist())
    if isinstance(o, bytes):
        return o.hex()
    return repr(o)


def dumps(o, **kw):
    return json.dumps(plain(o), sort_keys=True, **kw)


def arr_digest(a):
    a = np.ascontiguousarray(np.asarray(a))
    h = hashlib.sha256()
    h.update(str(a.dtype).encode())
    h.update(str(a.shape).encode())
    h.update(a.tobytes())
    return h.hexdigest()[:16]


# ----------------------------------------------------------------------------
# event log
# ----------------------------------------------------------------------------

class Log:
    """Append-only event log of one run.  Never reads a clock, never draws randomness."""

    def __init__(self, keep=4000):
        self.h = hashlib.sha256()
        self.n = 0
        self.keep = keep
        self.events = []

    def add(self, _kind, **payload):
        p = {}
        for k, v in payload.items():
            if hasattr(v, 'shape') and hasattr(v, 'dtype') and np.asarray(v).size > 6:
                p[k] = 'arr:' + arr_digest(v)
            else:
                p[k] = plain(v)
        line = json.dumps([self.n, _kind, p], sort_keys=True)
        self.h.update(line.encode())
        self.h.update(b'\n')
        if len(self.events) < self.keep:
            self.events.append(line)
        self.n += 1

    def digest(self):
        return self.h.hexdigest()


# ----------------------------------------------------------------------------
# violations, skips, counters
# ----------------------------------------------------------------------------

class Violation(Exception):
    def __init__(self, prop, clause, msg, sig=None, data=None, op=None):
        super().__init__('%s/%s: %s' % (prop, clause, msg))
        self.prop = prop
        self.clause = clause
        self.msg = msg
        self.sig = sig or {}
        self.data = data or {}
        self.op = op

    def to_json(self):
        return plain({'property': self.prop, 'clause': self.clause, 'msg': self.msg,
                      'sig': self.sig, 'data': self.data, 'op': self.op})


class RunAbort(Exception):
    """The run cannot go on for a reason that is neither a pass nor a violation."""


class RunTimeout(Exception):
    pass


class Ctx:
    """Per-run context handed to an engine: log, counters, collected violations."""

    def __init__(self, focus=None):
        self.log = Log()
        self.focus = focus
        self.violations = []
        self.faults = {}
        self.probes = {}
        self.skipped = {}
        self.checked = {}
        self.sim_time = 0.0
        self.labels = []
        self.nontrivial = False
        self.aborted = None
        self.op_index = None

    def count(self, table, key, n=1):
        d = getattr(self, table)
        d[key] = d.get(key, 0) + n

    def fault(self, kind, n=1):
        self.count('faults', kind, n)
        self.log.add('fault', kind=kind)

    def probe(self, name, n=1):
        self.count('probes', name, n)

    def skip(self, clause, n=1):
        self.count('skipped', clause, n)

    def ok(self, clause, n=1):
        self.count('checked', clause, n)

    def label(self, s):
        self.labels.append(str(s))

    def violate(self, prop, clause, msg, sig=None, data=None):
        """Record a violation.  The first violation of the focus property stops the run."""
        v = Violation(prop, clause, msg, sig=sig, data=data, op=self.op_index)
        self.log.add('violation', prop=prop, clause=clause)
        self.violations.append(v)
        if self.focus is None or prop == self.focus:
            raise v
        return v

    def require(self, cond, prop, clause, msg, sig=None, data=None):
        if cond:
            self.ok(prop + '.' + clause)
            return True
        self.violate(prop, clause, msg() if callable(msg) else msg, sig=sig,
                     data=data() if callable(data) else data)
        return False

    def result(self):
        sigsrc = json.dumps([self.labels, sorted(self.faults.keys())], sort_keys=True)
        return {
            'digest': self.log.digest(),
            'n_events': self.log.n,
            'violations': [v.to_json() for v in self.violations],
            'faults': self.faults, 'probes': self.probes, 'skipped': self.skipped,
            'checked': self.checked, 'sim_time': self.sim_time,
            'signature': hashlib.sha256(sigsrc.encode()).hexdigest()[:20],
            'nontrivial': bool(self.nontrivial), 'aborted': self.aborted,
        }


# ----------------------------------------------------------------------------
# run one program under a watchdog
# ----------------------------------------------------------------------------

def _alarm(signum, frame):
    raise RunTimeout()


def execute(engine, program, focus=None, watchdog_s=120, keep_log=False):
    """Execute `program` on `engine`; returns the result dict (never raises Violation).

    A *session* program ({'session': True, 'ops': [sub-program, ...]}) replays what one worker
    process did: the sub-programs are executed one after the other in this process (with the
    engine's cleanup in between, exactly like the batch worker), and only the last one is judged.
    It exists for violations that depend on state the library keeps at module / class level across
    otherwise independent runs."""
    if program.get('session'):
        subs = program.get('ops', [])
        for sub in subs[:-1]:
            _execute_one(engine, sub, None, watchdog_s, False)
        if not subs:
            return Ctx().result() | {'harness_error': None}
        return _execute_one(engine, subs[-1], focus, watchdog_s, keep_log)
    return _execute_one(engine, program, focus, watchdog_s, keep_log)


def _execute_one(engine, program, focus, watchdog_s, keep_log):
    ctx = Ctx(focus=focus)
    ctx.log.add('program', engine=program.get('engine'), n_ops=len(program.get('ops', [])))
    old = signal.signal(signal.SIGALRM, _alarm)
    signal.alarm(int(watchdog_s))
    harness_error = None
    try:
        engine.run_program(program, ctx)
    except Violation as v:
        if v not in ctx.violations:
            ctx.violations.append(v)
    except RunAbort as e:
        ctx.aborted = 'abort: %s' % e
        ctx.log.add('abort', why=str(e))
    except RunTimeout:
        ctx.aborted = 'watchdog'
        ctx.log.add('abort', why='watchdog')
    except Exception:
        harness_error = traceback.format_exc()
    finally:
        signal.alarm(0)
        signal.signal(signal.SIGALRM, old)
        try:
            engine.cleanup()
        except Exception:
            harness_error = (harness_error or '') + traceback.format_exc()
    res = ctx.result()
    res['harness_error'] = harness_error
    if keep_log:
        res['events'] = ctx.log.events
    return res


# ----------------------------------------------------------------------------
# known findings
# ----------------------------------------------------------------------------

def load_known_findings(path=None):
    path = path or os.path.join(VERIF_DIR, 'known_findings.json')
    if not os.path.exists(path):
        return []
    with open(path) as f:
        return json.load(f).get('findings', [])


def match_known(viol, findings):
    """viol: violation json.  A finding matches iff property and clause are equal and every
    key of its signature equals the violation's own sig entry."""
    for f in findings:
        if f['property'] != viol['property'] or f['clause'] != viol['clause']:
            continue
        sig = viol.get('sig') or {}
        if all(sig.get(k) == v for k, v in f.get('signature', {}).items()):
            return f
    return None


# ----------------------------------------------------------------------------
# minimiser: ddmin over ops, then engine-specific simplifications
# ----------------------------------------------------------------------------

def minimise(engine, program, target, findings, focus, max_exec=200, max_s=120,
             watchdog_s=60, runner=None):
    """target = (property, clause, known_id or None).  Accept a candidate only if a
    violation with the same property, clause and known-finding status still occurs."""
    t0 = time.time()
    nexec = [0]

    def fails(p):
        if nexec[0] >= max_exec or time.time() - t0 > max_s:
            return False
        nexec[0] += 1
        r = runner(p) if runner else execute(engine, p, focus=focus, watchdog_s=watchdog_s)
        if r is None or r['harness_error']:
            return False
        for v in r['violations']:
            k = match_known(v, findings)
            if (v['property'], v['clause'], k['id'] if k else None) == tuple(target):
                return True
        return False

    best = program
    ops = list(program.get('ops', []))
    # ddmin on the op list
    n = 2
    while len(ops) >= 2:
        chunk = max(1, len(ops) // n)
        removed = False
        for i in range(0, len(ops), chunk):
            cand_ops = ops[:i] + ops[i + chunk:]
            if not cand_ops:
                continue
            cand = dict(best, ops=cand_ops)
            if hasattr(engine, 'repair') and not best.get('session'):
                cand = engine.repair(cand)
                if cand is None:
                    continue
            if fails(cand):
                best, ops = cand, list(cand['ops'])
                n = max(n - 1, 2)
                removed = True
                break
        if not removed:
            if chunk == 1:
                break
            n = min(n * 2, len(ops))
        if nexec[0] >= max_exec or time.time() - t0 > max_s:
            break
    # engine specific simplification passes, to a fixed point
    if hasattr(engine, 'simplify') and not best.get('session'):
        progress = True
        while progress and nexec[0] < max_exec and time.time() - t0 <= max_s:
            progress = False
            for cand in engine.simplify(best):
                if cand == best:
                    continue
                if fails(cand):
                    best = cand
                    progress = True
                    break
    return best, nexec[0]


# ----------------------------------------------------------------------------
# environment pinning
# ----------------------------------------------------------------------------

PINNED_ENV = {
    'JAX_PLATFORMS': 'cpu',
    'JAX_ENABLE_X64': '1',
    'XLA_FLAGS': '--xla_cpu_multi_thread_eigen=false intra_op_parallelism_threads=1',
    'OMP_NUM_THREADS': '1', 'OPENBLAS_NUM_THREADS': '1', 'MKL_NUM_THREADS': '1',
    'NUMEXPR_NUM_THREADS': '1', 'PYTHONHASHSEED': '0',
    'TF_CPP_MIN_LOG_LEVEL': '3',
}


def pinned_env(extra=None):
    env = dict(os.environ)
    env.update(PINNED_ENV)
    fakes = os.path.join(VERIF_DIR, 'sim', 'fakes')
    env['PYTHONPATH'] = os.pathsep.join([fakes, REPO_DIR, VERIF_DIR])
    env['PYTHONDONTWRITEBYTECODE'] = '1'
    if extra:
        env.update(extra)
    return env


class quiet_stdout:
    """Redirect fd 1 to /dev/null around library calls (the library prints a lot)."""
    _depth = 0
    _saved = None

    def __enter__(self):
        cls = quiet_stdout
        if cls._depth == 0:
            sys.stdout.flush()
            cls._saved = os.dup(1)
            dn = os.open(os.devnull, os.O_WRONLY)
            os.dup2(dn, 1)
            os.close(dn)
        cls._depth += 1

    def __exit__(self, *a):
        cls = quiet_stdout
        cls._depth -= 1
        if cls._depth == 0:
            sys.stdout.flush()
            os.dup2(cls._saved, 1)
            os.close(cls._saved)
            cls._saved = None
        return False


def finite(x):
    return bool(np.all(np.isfinite(np.asarray(x, dtype=float))))


EPS = float(np.finfo(float).eps)
