"""In-process debugging helper:  python sim/debug.py <prop> <first> <count> [seed]"""
import os, sys, time, json
sys.path.insert(0, os.path.dirname(os.path.dirname(os.path.abspath(__file__))))
from sim import core
if os.environ.get('XLA_FLAGS') != core.PINNED_ENV['XLA_FLAGS'] or os.environ.get('PYTHONHASHSEED') != '0':
    os.execve(sys.executable, [sys.executable] + sys.argv, core.pinned_env())
from sim import registry
prop, first, count = sys.argv[1], int(sys.argv[2]), int(sys.argv[3])
seed = int(sys.argv[4]) if len(sys.argv) > 4 else 0
spec = registry.PROPS[prop]
eng = registry.engine_module(spec['engine'])
t0 = time.time()
tot = {}
for i in range(first, first + count):
    prog = eng.gen_program(core.rng_for(seed, prop, i), prop, 'quick', i)
    t1 = time.time()
    r = core.execute(eng, prog, focus=None if os.environ.get('ALLPROPS') else prop, watchdog_s=spec['watchdog_s'])
    for k in ('faults', 'probes', 'skipped', 'checked'):
        for a, b in r[k].items():
            tot.setdefault(k, {})[a] = tot.setdefault(k, {}).get(a, 0) + b
    flag = 'V' if r['violations'] else ('H' if r['harness_error'] else ('A' if r['aborted'] else '.'))
    print(i, flag, '%.2fs' % (time.time() - t1), 'ops=%d' % len(prog['ops']), r['digest'][:10], r['aborted'] or '')
    for v in r['violations']:
        print('   VIOL', v['property'], v['clause'], v['msg'][:200], v['sig'], 'op', v['op'])
    if r['harness_error']:
        print(r['harness_error'])
    if (r['violations'] or r['harness_error']) and os.environ.get('DUMP'):
        print(json.dumps(core.plain(prog)))
print('total %.1fs' % (time.time() - t0))
print(json.dumps(tot, indent=1, sort_keys=True))
