"""Batch driver:  ./check <property> [--tier quick|thorough] [--replay file]

exit 0  property held on everything explored (KNOWN-FINDING lines possible)
exit 1  VIOLATION property=<id> replay=<path>  (at least one unlisted violation)
exit 2  harness error / hung worker / replay that does not reproduce
"""
import argparse
import hashlib
import json
import os
import shutil
import subprocess
import sys
import tempfile
import time

sys.path.insert(0, os.path.dirname(os.path.dirname(os.path.abspath(__file__))))

from sim import core, registry  # noqa: E402

PY = sys.executable
WORKER = os.path.join(core.VERIF_DIR, 'sim', 'worker.py')


def spawn(args, env):
    return subprocess.Popen([PY, WORKER] + [str(x) for x in args], env=env,
                            stdout=subprocess.DEVNULL, stderr=subprocess.PIPE)


def read_jsonl(path):
    out = []
    if not os.path.exists(path):
        return out
    with open(path) as f:
        for line in f:
            line = line.strip()
            if not line:
                continue
            try:
                out.append(json.loads(line))
            except ValueError:
                pass  # torn last line of a killed worker
    return out


def run_sub(mode, infile, outfile, env, timeout, extra=()):
    p = spawn([mode, '--file', infile, '--out', outfile] + list(extra), env)
    try:
        _, err = p.communicate(timeout=timeout)
    except subprocess.TimeoutExpired:
        p.kill()
        p.communicate()
        return None, 'timeout'
    rows = read_jsonl(outfile)
    if p.returncode != 0 or not rows:
        return None, (err or b'').decode(errors='replace')[-2000:]
    return rows[0], None


def do_replay(prop, path, env, spec):
    work = tempfile.mkdtemp(prefix='rp-', dir=workroot())
    try:
        with open(path) as f:
            rp = json.load(f)
        res, err = run_sub('replay', path, os.path.join(work, 'out.jsonl'), env,
                           timeout=spec['watchdog_s'] * 3 + 600)
        if res is None:
            print('HARNESS-ERROR replay failed to execute: %s' % err)
            return 2
        findings = core.load_known_findings()
        want = (rp['violation']['property'], rp['violation']['clause'])
        got = [(v['property'], v['clause']) for v in res['violations']]
        same_digest = res['digest'] == rp.get('event_digest')
        print('replay: expected %s/%s, got %s; digest %s' %
              (want[0], want[1], got, 'identical' if same_digest else 'DIFFERS'))
        if want in got:
            v = [x for x in res['violations'] if (x['property'], x['clause']) == want][0]
            k = core.match_known(v, findings)
            if k:
                print('KNOWN-FINDING: property=%s %s [%s]' % (prop, k['what'], k['id']))
                return 0
            print('  %s' % v['msg'])
            print('VIOLATION property=%s replay=%s' % (prop, path))
            return 1
        print('replay did not reproduce the recorded violation on this tree')
        return 0
    finally:
        shutil.rmtree(work, ignore_errors=True)


def workroot():
    d = os.path.join(core.VERIF_DIR, '.work')
    os.makedirs(d, exist_ok=True)
    return d


def main():
    ap = argparse.ArgumentParser()
    ap.add_argument('prop')
    ap.add_argument('--tier', default=os.environ.get('VERIF_TIER', 'quick'))
    ap.add_argument('--replay')
    ap.add_argument('--runs', type=int)
    ap.add_argument('--budget-s', type=float)
    ap.add_argument('--workers', type=int)
    ap.add_argument('--no-evidence', action='store_true')
    ap.add_argument('--dump-digests')
    a = ap.parse_args()
    if a.tier not in ('quick', 'thorough'):
        a.tier = 'quick'
    prop = a.prop
    if prop not in registry.PROPS:
        print('unknown or not-applicable property %s' % prop)
        return 2
    spec = registry.PROPS[prop]
    seed = int(os.environ.get('VERIF_SEED', '0') or 0)
    env = core.pinned_env()
    if a.replay:
        return do_replay(prop, a.replay, env, spec)

    tier = spec[a.tier]
    runs = a.runs or int(os.environ.get('VERIF_RUNS', 0) or 0) or tier['runs']
    budget = a.budget_s or float(os.environ.get('VERIF_BUDGET_S', 0) or 0) or tier['budget_s']
    nproc = a.workers or int(os.environ.get('VERIF_WORKERS', 0) or 0) or min(16, os.cpu_count() or 1)
    nproc = max(1, min(nproc, runs))
    t0 = time.time()
    work = tempfile.mkdtemp(prefix='%s-' % prop, dir=workroot())
    rc = 2
    if spec.get('jaxcache'):
        env = core.pinned_env({'VERIF_JAXCACHE': os.path.join(work, 'jaxcache')})
    try:
        procs = []
        for w in range(nproc):
            count = len(range(w, runs, nproc))
            out = os.path.join(work, 'w%02d.jsonl' % w)
            p = spawn(['batch', '--prop', prop, '--tier', a.tier, '--seed', seed,
                       '--start', w, '--step', nproc, '--count', count,
                       '--budget-s', budget, '--out', out], env)
            procs.append((p, out, 'w%d' % w))
        # determinism spot check: a separate fresh interpreter re-executes the first runs
        nspot = min(spec.get('spot', 4), runs)
        spot_out = os.path.join(work, 'spot.jsonl')
        spot = spawn(['batch', '--prop', prop, '--tier', a.tier, '--seed', seed,
                      '--start', 0, '--step', 1, '--count', nspot,
                      '--budget-s', budget, '--out', spot_out],
                     dict(env, PYTHONHASHSEED='12345'))
        procs.append((spot, spot_out, 'spot'))

        hard = budget + spec['watchdog_s'] + 120
        hung, crashed = [], []
        for p, out, name in procs:
            left = max(1.0, hard - (time.time() - t0))
            try:
                _, err = p.communicate(timeout=left)
                if p.returncode != 0:
                    crashed.append((name, p.returncode, (err or b'').decode(errors='replace')[-3000:]))
            except subprocess.TimeoutExpired:
                p.kill()
                p.communicate()
                hung.append(name)

        rows, started = {}, {}
        harness_errors = []
        for p, out, name in procs:
            if name == 'spot':
                continue
            last_start = None
            for r in read_jsonl(out):
                if r.get('type') == 'start':
                    last_start = r['run']
                elif r.get('type') == 'run':
                    rows[r['run']] = r
                    last_start = None
                    if r.get('harness_error'):
                        harness_errors.append((r['run'], r['harness_error']))
            if last_start is not None:
                started[name] = last_start
        spot_rows = [r for r in read_jsonl(spot_out) if r.get('type') == 'run']
        spot_bad = [r['run'] for r in spot_rows
                    if r['run'] in rows and rows[r['run']]['digest'] != r['digest']]

        if a.dump_digests:
            with open(a.dump_digests, 'w') as f:
                json.dump({str(k): rows[k]['digest'] for k in sorted(rows)}, f, indent=0)

        findings = core.load_known_findings()
        # classify violations of this property
        by_class = {}
        other_props = {}
        for i in sorted(rows):
            for v in rows[i]['violations']:
                if v['property'] != prop:
                    other_props[v['property'] + '/' + v['clause']] = \
                        other_props.get(v['property'] + '/' + v['clause'], 0) + 1
                    continue
                k = core.match_known(v, findings)
                key = (v['property'], v['clause'], k['id'] if k else None)
                by_class.setdefault(key, []).append(i)

        os.makedirs(os.path.join(core.VERIF_DIR, 'replays'), exist_ok=True)
        lines, n_unlisted, known_hit, problems = [], 0, {}, []
        for key in sorted(by_class, key=lambda k: (k[2] is not None, str(k))):
            idxs = by_class[key]
            # shortest failing program first
            i = min(idxs, key=lambda j: (rows[j]['n_ops'], j))
            prog = rows[i]['program']
            cand = os.path.join(work, 'cand.json')
            with open(cand, 'w') as f:
                json.dump({'property': prop, 'program': prog, 'target': list(key)}, f)
            m, err = run_sub('minimise', cand, os.path.join(work, 'min.jsonl'), env,
                             timeout=420 if key[2] is None else 200,
                             extra=['--max-s', 150 if key[2] is None else 20,
                                    '--max-exec', 200 if key[2] is None else 8])
            if m is None:
                m = {'program': prog, 'result': rows[i], 'executions': 0}
            mv = [v for v in m['result']['violations']
                  if (v['property'], v['clause']) == key[:2]]
            if not mv:
                m = {'program': prog, 'result': rows[i], 'executions': 0}
                mv = [v for v in rows[i]['violations'] if (v['property'], v['clause']) == key[:2]]
            tag = hashlib.sha256(core.dumps(m['program']).encode()).hexdigest()[:8]
            path = os.path.join(core.VERIF_DIR, 'replays',
                                '%s-%s-s%d-r%d-%s.json' % (prop, key[1].replace('/', '_'), seed, i, tag))
            with open(path, 'w') as f:
                f.write(core.dumps({
                    'property': prop, 'seed': seed, 'run': i, 'tier': a.tier,
                    'violation': mv[0], 'event_digest': m['result']['digest'],
                    'program': m['program'], 'original_ops': rows[i]['n_ops'],
                    'minimiser_executions': m['executions'],
                    'how_to_replay': './check %s --replay %s' % (prop, path)}, indent=1))
            # confirm in a fresh interpreter
            conf, err = run_sub('replay', path, os.path.join(work, 'conf.jsonl'), env,
                                timeout=spec['watchdog_s'] * 3 + 600)
            ok = conf is not None and conf['digest'] == m['result']['digest'] and \
                any((v['property'], v['clause']) == key[:2] for v in conf['violations'])
            if not ok:
                # The violation may depend on state the library kept from earlier runs executed by the same
                # worker process.  Re-create that worker's session (its run indices are a pure function of
                # seed, property and worker count), minimise over the list of runs, and confirm that.
                sess = session_replay(prop, a.tier, seed, i, nproc, key, spec, work, env, rows[i])
                if sess is not None:
                    path, mv, m = sess
                    ok = True
            if not ok:
                problems.append('violation %s of run %d did not reproduce from its replay file %s'
                                % (key[:2], i, path))
                continue
            if key[2] is not None:
                f_ = [x for x in findings if x['id'] == key[2]][0]
                known_hit[key[2]] = len(idxs)
                lines.append('KNOWN-FINDING: property=%s %s [%s; %d runs; e.g. %s]'
                             % (prop, f_['what'], f_['id'], len(idxs), os.path.relpath(path, core.VERIF_DIR)))
            else:
                n_unlisted += 1
                lines.append('  clause=%s runs=%d first=%d ops=%d->%d: %s'
                             % (key[1], len(idxs), i, rows[i]['n_ops'], len(m['program']['ops']),
                                mv[0]['msg'][:300]))
                lines.append('VIOLATION property=%s replay=%s' % (prop, path))

        wall = time.time() - t0
        n = len(rows)
        aborted = sum(1 for r in rows.values() if r.get('aborted'))
        if hung:
            problems.append('workers killed at the hard wall limit: %s (run in flight: %s)'
                            % (hung, started))
        for name, code, err in crashed:
            problems.append('worker %s exited with %s: %s' % (name, code, err))
        for i, e in harness_errors[:3]:
            problems.append('harness error in run %d:\n%s' % (i, e))
        if spot_bad:
            problems.append('nondeterminism: runs %s gave different digests in a fresh interpreter '
                            'with another PYTHONHASHSEED' % spot_bad)
        wd = [i for i in sorted(rows) if rows[i].get('aborted') == 'watchdog']
        if wd:
            problems.append('runs %s hit the per-run watchdog (%ds): neither a pass nor a violation'
                            % (wd[:8], spec['watchdog_s']))
        if n < min(tier['min_runs'], runs):
            problems.append('only %d of %d runs completed within the budget (minimum %d)'
                            % (n, runs, tier['min_runs']))

        if not a.no_evidence:
            write_evidence(prop, a.tier, seed, spec, rows, runs, wall, nproc, n_unlisted,
                           known_hit, other_props, len(spot_rows), spot_bad, aborted, problems)
        print('%s tier=%s seed=%d engine=%s runs=%d/%d aborted=%d wall=%.1fs (%.0f runs/h) spot=%d/%d'
              % (prop, a.tier, seed, spec['engine'], n, runs, aborted, wall,
                 n / max(wall, 1e-9) * 3600, len(spot_rows) - len(spot_bad), len(spot_rows)))
        for ln in lines:
            print(ln)
        for pb in problems:
            print('HARNESS-ERROR ' + pb)
        if n_unlisted:
            rc = 1
        elif problems:
            rc = 2
        else:
            rc = 0
    finally:
        shutil.rmtree(work, ignore_errors=True)
    return rc


def session_replay(prop, tier, seed, i, nproc, key, spec, work, env, row):
    engine = registry.engine_module(spec['engine'])
    w = i % nproc
    idx = list(range(w, i + 1, nproc))
    progs = [engine.gen_program(core.rng_for(seed, prop, j), prop, tier, j) for j in idx]
    program = {'engine': spec['engine'], 'session': True, 'ops': progs, 'session_runs': idx}
    cand = os.path.join(work, 'sess.json')
    with open(cand, 'w') as f:
        f.write(core.dumps({'property': prop, 'program': program, 'target': list(key)}))
    m, err = run_sub('minimise', cand, os.path.join(work, 'sessmin.jsonl'), env, timeout=900,
                     extra=['--max-s', 600, '--max-exec', 60])
    if m is None:
        return None
    mv = [v for v in m['result']['violations'] if (v['property'], v['clause']) == key[:2]]
    if not mv:
        return None
    tag = hashlib.sha256(core.dumps(m['program']).encode()).hexdigest()[:8]
    path = os.path.join(core.VERIF_DIR, 'replays', '%s-%s-s%d-r%d-session-%s.json' % (prop, key[1].replace('/', '_'), seed, i, tag))
    with open(path, 'w') as f:
        f.write(core.dumps({'property': prop, 'seed': seed, 'run': i, 'tier': tier, 'violation': mv[0],
                            'event_digest': m['result']['digest'], 'program': m['program'],
                            'original_ops': len(progs), 'minimiser_executions': m['executions'],
                            'note': 'session replay: the listed runs are executed one after the other in one process; only the last one is judged',
                            'how_to_replay': './check %s --replay %s' % (prop, path)}, indent=1))
    conf, err = run_sub('replay', path, os.path.join(work, 'sessconf.jsonl'), env, timeout=spec['watchdog_s'] * 3 + 900)
    ok = conf is not None and conf['digest'] == m['result']['digest'] and \
        any((v['property'], v['clause']) == key[:2] for v in conf['violations'])
    return (path, mv, m) if ok else None


def merge(dst, src):
    for k, v in (src or {}).items():
        dst[k] = dst.get(k, 0) + v


def write_evidence(prop, tier, seed, spec, rows, runs, wall, nproc, n_unlisted, known_hit,
                   other_props, nspot, spot_bad, aborted, problems):
    from sim.info import INFO
    faults, probes, skipped, checked = {}, {}, {}, {}
    sim_time = 0.0
    sigs = set()
    samples = []
    for i in sorted(rows):
        r = rows[i]
        merge(faults, r['faults'])
        merge(probes, r['probes'])
        merge(skipped, r['skipped'])
        merge(checked, r['checked'])
        sim_time += r.get('sim_time') or 0.0
        if r['nontrivial']:
            sigs.add(r['signature'])
        if 'program' in r and len(samples) < 3:
            samples.append({'run': i, 'program': r['program'], 'digest': r['digest']})
    info = INFO.get(prop, {})
    for k in info.get('probe_names', []):
        probes.setdefault(k, 0)
    ev = {
        'property_id': prop, 'tier': tier, 'seed': seed, 'level': 'exploration',
        'coverage': {
            'evaluations': len(rows),
            'distinct_nontrivial': len(sigs),
            'rule': info.get('rule', ''),
            'samples': samples,
            'runs_requested': runs,
            'runs_per_hour': len(rows) / max(wall, 1e-9) * 3600,
            'seeds': {'base': seed, 'run_indices': [0, runs - 1], 'derivation':
                      'SeedSequence([seed, crc32(property), run_index]) -> PCG64'},
            'sim_time': {'value': sim_time, 'unit': info.get('sim_time_unit', '')},
            'faults_fired': faults, 'probes': probes, 'skipped_clauses': skipped,
            'clause_checks': checked, 'aborted_runs': aborted,
            'components': info.get('components', {}),
            'determinism_spotcheck': {'runs_reexecuted_fresh_interpreter_other_hashseed': nspot,
                                      'digest_mismatches': len(spot_bad)},
            'known_findings_hit': known_hit,
            'violations_of_other_properties_seen': other_props,
            'workers': nproc, 'harness_problems': problems,
        },
        'assumptions': info.get('assumptions', []),
        'wall_s': wall, 'violations': n_unlisted,
    }
    os.makedirs(os.path.join(core.VERIF_DIR, 'evidence'), exist_ok=True)
    with open(os.path.join(core.VERIF_DIR, 'evidence', prop + '.json'), 'w') as f:
        f.write(core.dumps(ev, indent=1) + '\n')


if __name__ == '__main__':
    sys.exit(main())
