"""Stub of scikit-sparse (absent from this sandbox) owned by the simulator."""
