"""In-process stand-in for sksparse.cholmod, backed by dense LAPACK Cholesky.

Implements exactly the surface optimism.SparseCholesky uses: analyze(), Factor.cholesky_inplace(),
Factor.cholesky(), Factor.__call__(), CholmodNotPositiveDefiniteError.  A matrix that is not
numerically positive definite raises the error on its own (like CHOLMOD); on top of that the
simulator's fault plan can make chosen attempts of a refresh fail ("retryable error").

Fault plan protocol: PLAN.masks is a FIFO of bitmasks, one per refresh (a refresh starts with
analyze()); bit k set means the k-th factorisation attempt of that refresh raises.  Attempts >= 10
and identity matrices are never failed by injection (the library's last-resort fallback is SPD).
"""
import numpy as np
import scipy.linalg as sla


class CholmodError(Exception):
    pass


class CholmodNotPositiveDefiniteError(CholmodError):
    pass


class Plan:
    def __init__(self):
        self.reset()

    def reset(self):
        self.masks = []          # FIFO, one bitmask per refresh
        self.mask = 0            # mask of the refresh in progress
        self.attempt = 0
        self.refreshes = 0
        self.injected = 0        # number of injected failures that fired
        self.natural = 0         # real "not positive definite" failures
        self.identity_fallbacks = 0
        self.history = []        # per refresh: [attempts_failed_injected, natural, final_kind]
        self.listener = None

    def begin_refresh(self):
        self.mask = self.masks.pop(0) if self.masks else 0
        self.attempt = 0
        self.refreshes += 1
        self.history.append([0, 0, 'exact'])


PLAN = Plan()


def _dense(A):
    return np.asarray(A.todense()) if hasattr(A, 'todense') else np.asarray(A)


class Factor:
    def __init__(self):
        self._c = None
        self._n = None

    def _factor(self, A, inject=True):
        M = _dense(A).astype(float)
        n = M.shape[0]
        is_identity = M.shape == (n, n) and np.array_equal(M, np.eye(n))
        k = PLAN.attempt
        PLAN.attempt += 1
        if inject and not is_identity and k < 10 and (PLAN.mask >> k) & 1:
            PLAN.injected += 1
            if PLAN.history:
                PLAN.history[-1][0] += 1
            if PLAN.listener:
                PLAN.listener('chol_fail_injected', k)
            raise CholmodNotPositiveDefiniteError('injected failure at attempt %d' % k)
        if not np.all(np.isfinite(M)):
            PLAN.natural += 1
            if PLAN.history:
                PLAN.history[-1][1] += 1
            raise CholmodNotPositiveDefiniteError('matrix has non-finite entries')
        try:
            c = sla.cho_factor(M, lower=True, check_finite=False)
        except sla.LinAlgError:
            PLAN.natural += 1
            if PLAN.history:
                PLAN.history[-1][1] += 1
            if PLAN.listener:
                PLAN.listener('chol_fail_natural', k)
            raise CholmodNotPositiveDefiniteError('matrix is not positive definite')
        if PLAN.history:
            PLAN.history[-1][2] = 'identity' if is_identity else ('exact' if k == 0 else 'shifted')
        if is_identity:
            PLAN.identity_fallbacks += 1
        return c, n

    def cholesky_inplace(self, A, beta=0):
        self._c, self._n = self._factor(A)

    def cholesky(self, A, beta=0):
        f = Factor()
        f._c, f._n = f._factor(A, inject=False)
        return f

    def __call__(self, b):
        b = np.asarray(b, dtype=float)
        return sla.cho_solve(self._c, b, check_finite=False)

    solve_A = __call__


def analyze(A, mode='auto', ordering_method='default', use_long=None):
    PLAN.begin_refresh()
    return Factor()


def cholesky(A, beta=0, mode='auto', ordering_method='default', use_long=None):
    f = analyze(A)
    f.cholesky_inplace(A)
    return f
