"""Parameterised objective families: one JAX implementation handed to the library, and an
independent closed-form numpy evaluator (value, gradient, Hessian, parameter Jacobians,
rounding bounds) used only by the oracles.

f(x; p) = 1/2 x'Ax - (b + B0 p0 + B1 p1 + B2 p2 + t b4).x + 1/4 sum q_i x_i^4
          + sum_k a_k cos(w_k.x + phi_k) + sum_k s_k softplus(r_k.x + tau_k)
          + g1 sin(u0.p0 + u1.p1 + u2.p2 + u4 t) (h1.x)
          + 1/2 g2 (1 + tanh(v0.p0 + v2.p2)) (h2.x)^2
          + 1/6 sum_k c3_k (T_k.x)^3 + c4 (x.x)^2 + c6 (x.x)^3          (polynomial "snap-through" family P)
   times a NaN barrier:  nan where bar_a.x > bar_c  (bar_c = +inf: no barrier)

p = Params(bc_data=p0, state_data=p1, design_data=p2, app_data=coefs, time=t).
All coefficients travel in app_data, so one compiled Objective per dimension serves every run.
"""
import numpy as np

M = 3        # dimension of every parameter slot
K = 3        # number of cos / softplus terms

K3 = 3       # number of cubic directions

COEF_KEYS = ('c3', 'T', 'c4', 'c6', 'A', 'b', 'B0', 'B1', 'B2', 'b4', 'q', 'a', 'W', 'phi', 's', 'R', 'tau',
             'g1', 'u0', 'u1', 'u2', 'u4', 'h1', 'g2', 'v0', 'v2', 'h2', 'bar_a', 'bar_c')


def jax_objective():
    import jax.numpy as jnp
    import jax

    def f(x, p):
        c = p.app_data
        p0, p1, p2, t = p.bc_data, p.state_data, p.design_data, p.time
        lin = c['b'] + c['B0'] @ p0 + c['B1'] @ p1 + c['B2'] @ p2 + t * c['b4']
        val = 0.5 * x @ (c['A'] @ x) - lin @ x + 0.25 * jnp.sum(c['q'] * x**4)
        val = val + jnp.sum(c['a'] * jnp.cos(c['W'] @ x + c['phi']))
        val = val + jnp.sum(c['s'] * jax.nn.softplus(c['R'] @ x + c['tau']))
        theta = c['u0'] @ p0 + c['u1'] @ p1 + c['u2'] @ p2 + c['u4'] * t
        val = val + c['g1'] * jnp.sin(theta) * (c['h1'] @ x)
        psi = c['v0'] @ p0 + c['v2'] @ p2
        val = val + 0.5 * c['g2'] * (1.0 + jnp.tanh(psi)) * (c['h2'] @ x)**2
        r2 = x @ x
        val = val + jnp.sum(c['c3'] * (c['T'] @ x)**3) / 6.0 + c['c4'] * r2**2 + c['c6'] * r2**3
        bar = jnp.where(c['bar_a'] @ x > c['bar_c'], jnp.nan, 1.0)
        return val * bar
    return f


def make_coefs(cfg):
    """cfg: {'n', 'family', 'cond', 'cseed', ...}.  Pure function of cfg."""
    n = int(cfg['n'])
    rng = np.random.Generator(np.random.PCG64(int(cfg['cseed'])))
    fam = cfg['family']
    Q, _ = np.linalg.qr(rng.normal(size=(n, n)))
    cond = float(cfg.get('cond', 10.0))
    if n == 1:
        sig = np.array([1.0])
    else:
        sig = np.exp(np.linspace(0.0, np.log(cond), n))
        sig = sig[rng.permutation(n)]
    sig = sig * float(cfg.get('sigscale', 1.0))
    if fam in ('Qi', 'S', 'L', 'P'):
        # indefinite / singular spectrum
        k0 = int(cfg.get('nneg', 1))
        kz = int(cfg.get('nzero', 0))
        idx = rng.permutation(n)
        sig[idx[:min(k0, n)]] *= -1.0
        sig[idx[min(k0, n):min(k0 + kz, n)]] = 0.0
    if cfg.get('repeat') and n >= 3:
        sig[1] = sig[0]
    A = (Q * sig) @ Q.T
    A = 0.5 * (A + A.T)
    c = {'A': A, 'b': rng.normal(size=n) * float(cfg.get('bscale', 1.0)),
         'B0': rng.normal(size=(n, M)), 'B1': rng.normal(size=(n, M)) * 0.5,
         'B2': rng.normal(size=(n, M)), 'b4': rng.normal(size=n) * 0.3}
    zero = lambda *s: np.zeros(s)
    quart = fam in ('Qc', 'Qi', 'S') and cfg.get('quartic', True)
    c['q'] = np.abs(rng.normal(size=n)) * float(cfg.get('qscale', 1.0)) if quart else zero(n)
    if fam in ('Qi', 'L') and cfg.get('cos', True):
        c['a'] = rng.normal(size=K) * float(cfg.get('ascale', 1.0))
        c['W'] = rng.normal(size=(K, n)) * float(cfg.get('wscale', 1.0))
        c['phi'] = rng.uniform(0, 2 * np.pi, size=K)
    else:
        rng.normal(size=K); rng.normal(size=(K, n)); rng.uniform(size=K)
        c['a'], c['W'], c['phi'] = zero(K), zero(K, n), zero(K)
    if fam == 'Qc' and cfg.get('softplus', True):
        c['s'] = np.abs(rng.normal(size=K)) * float(cfg.get('sscale', 1.0))
        c['R'] = rng.normal(size=(K, n))
        c['tau'] = rng.normal(size=K)
    else:
        rng.normal(size=K); rng.normal(size=(K, n)); rng.normal(size=K)
        c['s'], c['R'], c['tau'] = zero(K), zero(K, n), zero(K)
    nlp = bool(cfg.get('nonlinear_p', False))
    c['g1'] = float(rng.normal()) if nlp else 0.0
    c['u0'], c['u1'], c['u2'] = rng.normal(size=M), rng.normal(size=M) * 0.5, rng.normal(size=M)
    c['u4'] = float(rng.normal())
    c['h1'] = rng.normal(size=n)
    c['g2'] = float(abs(rng.normal())) * float(np.min(np.abs(sig)) + 0.1) if nlp else 0.0
    c['v0'], c['v2'] = rng.normal(size=M), rng.normal(size=M)
    c['h2'] = rng.normal(size=n)
    if fam == 'P':
        hs = float(np.max(np.abs(sig)))
        c['c3'] = rng.normal(size=K3) * hs * float(cfg.get('c3scale', 5.0))
        T = rng.normal(size=(K3, n))
        c['T'] = T / np.linalg.norm(T, axis=1)[:, None]
        c['c4'] = float(abs(rng.normal()) * 0.02 * hs + 0.02 * hs)
        c['c6'] = float(abs(rng.normal()) * 0.02 * hs + 0.01 * hs)
    else:
        c['c3'], c['T'], c['c4'], c['c6'] = zero(K3), zero(K3, n), 0.0, 0.0
    ex = cfg.get('explicit')
    if ex:
        # explicitly constructed instance: f = g.x + 1/2 x'Hx + 1/6 sum c3_k (T_k.x)^3 (+ nothing else)
        c['A'] = np.asarray(ex['H'], dtype=float)
        c['b'] = -np.asarray(ex['g'], dtype=float)
        for k_ in ('B0', 'B1', 'B2'):
            c[k_] = zero(n, M)
        c['b4'] = zero(n)
        c['q'], c['a'], c['s'] = zero(n), zero(K), zero(K)
        c['g1'], c['g2'] = 0.0, 0.0
        c['c3'] = np.asarray(ex['c3'], dtype=float)
        c['T'] = np.asarray(ex['T'], dtype=float)
        c['c4'], c['c6'] = 0.0, 0.0
        c['_sig'] = np.linalg.eigvalsh(c['A'])
    bar = cfg.get('barrier')
    if bar:
        a = np.asarray(bar['a'], dtype=float)
        c['bar_a'] = a
        c['bar_c'] = float(bar['c'])
    else:
        c['bar_a'] = zero(n)
        c['bar_c'] = np.inf
    c['_sig'] = sig
    c['_Q'] = Q
    return c


def to_jax_coefs(c):
    import jax.numpy as jnp
    return {k: jnp.asarray(c[k], dtype=jnp.float64) for k in COEF_KEYS}


def _softplus(z):
    return np.logaddexp(0.0, z)


def _sigmoid(z):
    return 0.5 * (1.0 + np.tanh(0.5 * z))


class Evaluator:
    """Closed-form numpy evaluation; shares nothing with jax.grad / jit / Objective."""

    def __init__(self, c):
        self.c = c
        self.n = c['A'].shape[0]
        self.absA = np.abs(c['A'])

    def lin(self, p):
        c = self.c
        return c['b'] + c['B0'] @ p[0] + c['B1'] @ p[1] + c['B2'] @ p[2] + p[4] * c['b4']

    def theta(self, p):
        c = self.c
        return c['u0'] @ p[0] + c['u1'] @ p[1] + c['u2'] @ p[2] + c['u4'] * p[4]

    def psi(self, p):
        c = self.c
        return c['v0'] @ p[0] + c['v2'] @ p[2]

    def in_barrier(self, x):
        return bool(self.c['bar_a'] @ x > self.c['bar_c'])

    def value(self, x, p):
        c = self.c
        x = np.asarray(x, dtype=float)
        v = 0.5 * x @ (c['A'] @ x) - self.lin(p) @ x + 0.25 * np.sum(c['q'] * x**4)
        v += np.sum(c['a'] * np.cos(c['W'] @ x + c['phi']))
        v += np.sum(c['s'] * _softplus(c['R'] @ x + c['tau']))
        v += c['g1'] * np.sin(self.theta(p)) * (c['h1'] @ x)
        v += 0.5 * c['g2'] * (1 + np.tanh(self.psi(p))) * (c['h2'] @ x)**2
        r2 = x @ x
        v += np.sum(c['c3'] * (c['T'] @ x)**3) / 6.0 + c['c4'] * r2**2 + c['c6'] * r2**3
        return float(v)

    def value_mag(self, x, p):
        """Sum of the magnitudes of the terms added up in value(): scale for rounding."""
        c = self.c
        x = np.abs(np.asarray(x, dtype=float))
        n = self.n
        m = 0.5 * x @ (self.absA @ x) * (n + 2) + (np.abs(c['b']) + np.abs(c['B0']) @ np.abs(p[0])
                                                   + np.abs(c['B1']) @ np.abs(p[1]) + np.abs(c['B2']) @ np.abs(p[2])
                                                   + abs(p[4]) * np.abs(c['b4'])) @ x * (n + M + 2)
        m += 0.25 * np.sum(c['q'] * x**4) * 4
        m += np.sum(np.abs(c['a'])) * (1 + np.max(np.abs(c['W']) @ x, initial=0.0)) * (n + 2)
        m += np.sum(np.abs(c['s']) * (1 + np.abs(c['R']) @ x + np.abs(c['tau']))) * (n + 2)
        m += abs(c['g1']) * (np.abs(c['h1']) @ x) * (n + 2)
        m += abs(c['g2']) * (np.abs(c['h2']) @ x)**2 * (n + 2)
        r2 = x @ x
        m += (np.sum(np.abs(c['c3']) * (np.abs(c['T']) @ x)**3) / 6.0 + abs(c['c4']) * r2**2 + abs(c['c6']) * r2**3) * (n + 4)
        return float(m) + 1e-300

    def grad(self, x, p):
        c = self.c
        x = np.asarray(x, dtype=float)
        g = c['A'] @ x - self.lin(p) + c['q'] * x**3
        g = g - (c['a'] * np.sin(c['W'] @ x + c['phi'])) @ c['W']
        g = g + (c['s'] * _sigmoid(c['R'] @ x + c['tau'])) @ c['R']
        g = g + c['g1'] * np.sin(self.theta(p)) * c['h1']
        g = g + c['g2'] * (1 + np.tanh(self.psi(p))) * (c['h2'] @ x) * c['h2']
        r2 = x @ x
        g = g + 0.5 * (c['c3'] * (c['T'] @ x)**2) @ c['T'] + 4 * c['c4'] * r2 * x + 6 * c['c6'] * r2**2 * x
        return g

    def grad_mag(self, x, p):
        """Componentwise magnitude of the terms summed in grad(): scale for rounding."""
        c = self.c
        ax = np.abs(np.asarray(x, dtype=float))
        n = self.n
        m = (self.absA @ ax) * (n + 1) + (np.abs(c['b']) + np.abs(c['B0']) @ np.abs(p[0]) + np.abs(c['B1']) @ np.abs(p[1])
                                         + np.abs(c['B2']) @ np.abs(p[2]) + abs(p[4]) * np.abs(c['b4'])) * (M + 2)
        m = m + 3 * c['q'] * ax**3
        m = m + (np.abs(c['a']) * (1 + np.abs(c['W']) @ ax) * (n + 2)) @ np.abs(c['W'])
        m = m + (np.abs(c['s']) * (1 + np.abs(c['R']) @ ax) * (n + 2)) @ np.abs(c['R'])
        m = m + abs(c['g1']) * np.abs(c['h1']) * (M + 4)
        m = m + 2 * abs(c['g2']) * (np.abs(c['h2']) @ ax) * np.abs(c['h2']) * (n + M + 4)
        r2 = ax @ ax
        m = m + (0.5 * (np.abs(c['c3']) * (np.abs(c['T']) @ ax)**2) @ np.abs(c['T']) + 4 * abs(c['c4']) * r2 * ax
                 + 6 * abs(c['c6']) * r2**2 * ax) * (n + 4)
        return m

    def hess(self, x, p):
        c = self.c
        x = np.asarray(x, dtype=float)
        H = c['A'] + np.diag(3 * c['q'] * x**2)
        H = H - (c['W'].T * (c['a'] * np.cos(c['W'] @ x + c['phi']))) @ c['W']
        sg = _sigmoid(c['R'] @ x + c['tau'])
        H = H + (c['R'].T * (c['s'] * sg * (1 - sg))) @ c['R']
        H = H + c['g2'] * (1 + np.tanh(self.psi(p))) * np.outer(c['h2'], c['h2'])
        r2 = x @ x
        H = H + (c['T'].T * (c['c3'] * (c['T'] @ x))) @ c['T']
        H = H + 4 * c['c4'] * (r2 * np.eye(self.n) + 2 * np.outer(x, x))
        H = H + 6 * c['c6'] * (r2**2 * np.eye(self.n) + 4 * r2 * np.outer(x, x))
        return 0.5 * (H + H.T)

    def dgrad_dp(self, x, p, slot):
        """d(grad_x f)/d p_slot: (n, M) for slots 0,1,2; (n,) for slot 4 (time)."""
        c = self.c
        x = np.asarray(x, dtype=float)
        ct = c['g1'] * np.cos(self.theta(p))
        sech2 = 1.0 - np.tanh(self.psi(p))**2
        hx = c['g2'] * sech2 * (c['h2'] @ x)
        if slot == 0:
            return -c['B0'] + ct * np.outer(c['h1'], c['u0']) + hx * np.outer(c['h2'], c['v0'])
        if slot == 1:
            return -c['B1'] + ct * np.outer(c['h1'], c['u1'])
        if slot == 2:
            return -c['B2'] + ct * np.outer(c['h1'], c['u2']) + hx * np.outer(c['h2'], c['v2'])
        if slot == 4:
            return -c['b4'] + ct * c['u4'] * c['h1']
        raise ValueError(slot)

    def strong_convexity(self):
        """A lower bound mu on the smallest Hessian eigenvalue valid for all x (families with
        convex extra terms only): lambda_min(A)."""
        return float(np.min(self.c['_sig']))

    def minimiser(self, p, x0=None, iters=200):
        """Dense damped Newton in numpy for strictly convex members; returns (x*, ok)."""
        x = np.zeros(self.n) if x0 is None else np.array(x0, dtype=float)
        for _ in range(iters):
            g = self.grad(x, p)
            gn = np.linalg.norm(g)
            if gn <= 1e-13 * (1 + np.linalg.norm(self.grad_mag(x, p))):
                return x, True
            H = self.hess(x, p)
            try:
                d = -np.linalg.solve(H, g)
            except np.linalg.LinAlgError:
                return x, False
            t, f0 = 1.0, self.value(x, p)
            while t > 1e-12 and not self.value(x + t * d, p) <= f0 + 1e-4 * t * (g @ d):
                t *= 0.5
            x = x + t * d
            if t * np.linalg.norm(d) <= 1e-15 * (1 + np.linalg.norm(x)):
                g = self.grad(x, p)
                return x, bool(np.linalg.norm(g) <= 1e-9 * (1 + np.linalg.norm(self.grad_mag(x, p))))
        return x, False
