"""fe_app_sim: the finite-element application loop on small meshes.

modes
  dynamics  (C15 + C02 dynamic clause): predict / minimise algorithmic energy / correct, variable dt,
            solver caps + resume, Cholesky faults, restart from (U,V,A).
  statics   (C02, C07 FE-level helpers, C10 FE-level output): load steps with essential-BC changes,
            commit of internal variables, rebuild of the dof manager with another BC set, and a
            k-block replica driven in lock step.

Real: optimism.Mesh, FunctionSpace, QuadratureRule, Mechanics, SparseMatrixAssembler, Objective,
EquationSolver, SparseCholesky, material models, inverse.MechanicsInverse, inverse.AdjointFunctionSpace.
Stub: sksparse.cholmod.
"""
import numpy as np

from sim import core, seams

_cache = {}


def lib():
    if 'L' not in _cache:
        import optimism  # noqa: F401
        import jax
        import jax.numpy as jnp
        from optimism import (Mesh, FunctionSpace, QuadratureRule, Mechanics, SparseMatrixAssembler, Objective,
                              EquationSolver, Surface, SparseCholesky, Interpolants)
        from optimism.material import LinearElastic, Neohookean, Gent, J2Plastic, HyperViscoelastic
        from optimism.inverse import MechanicsInverse, AdjointFunctionSpace
        _cache['L'] = dict(jax=jax, jnp=jnp, Mesh=Mesh, FS=FunctionSpace, QR=QuadratureRule, Mech=Mechanics,
                           SMA=SparseMatrixAssembler, OBJ=Objective, ES=EquationSolver, Surface=Surface,
                           SC=SparseCholesky, Interp=Interpolants,
                           mats=dict(linear=LinearElastic, neohookean=Neohookean, gent=Gent, j2=J2Plastic,
                                     visco1=HyperViscoelastic),
                           MI=MechanicsInverse, AFS=AdjointFunctionSpace)
    return _cache['L']


SIDES = ('left', 'right', 'bottom', 'top')


# ----------------------------------------------------------------------------
# generation
# ----------------------------------------------------------------------------

def gen_mesh_cfg(rng, max_order):
    order = int(rng.integers(1, max_order + 1))
    nx, ny = int(rng.integers(2, 5)), int(rng.integers(2, 5))
    if order >= 2:
        nx, ny = min(nx, 3), min(ny, 3)
    A = np.eye(2) + rng.normal(size=(2, 2)) * 0.15
    return {'nx': nx, 'ny': ny, 'order': order, 'affine': A.tolist(), 'shift': rng.normal(size=2).tolist(),
            # how the mesh names its element blocks: the single-material factories integrate over all elements
            # whatever the block dictionary says (one block, a partition, only an inclusion, overlapping, none)
            'blocks_style': str(rng.choice(['full', 'full', 'partition', 'partial', 'overlap', 'none'])),
            'jitter': float(rng.uniform(0, 0.15)), 'jseed': int(rng.integers(0, 2**31)),
            'quad_extra': int(rng.integers(0, 3))}


def gen_material(rng, mode, prop):
    E = float(10.0 ** rng.uniform(0, 2))
    nu = float(rng.uniform(0.0, 0.4))
    rho = float(10.0 ** rng.uniform(-1, 1.5))
    if mode == 'dynamics':
        if rng.random() < 0.6:
            return {'kind': 'linear', 'elastic modulus': E, 'poisson ratio': nu, 'density': rho, 'strain measure': 'linear'}
        return {'kind': 'neohookean', 'elastic modulus': E, 'poisson ratio': nu, 'density': rho,
                'version': str(rng.choice(['adagio', 'coupled']))}
    r = rng.random()
    if r < 0.2:
        return {'kind': 'linear', 'elastic modulus': E, 'poisson ratio': nu,
                'strain measure': str(rng.choice(['linear', 'logarithmic']))}
    if r < 0.45:
        return {'kind': 'neohookean', 'elastic modulus': E, 'poisson ratio': nu, 'version': str(rng.choice(['adagio', 'coupled']))}
    if r < 0.55:
        return {'kind': 'gent', 'bulk modulus': E / (3 * (1 - 2 * nu)), 'shear modulus': E / (2 * (1 + nu)),
                'elastic modulus': E, 'Jm parameter': float(rng.uniform(3, 30))}
    if r < 0.85:
        Y0 = float(E * 10.0 ** rng.uniform(-2.5, -1.5))
        return {'kind': 'j2', 'elastic modulus': E, 'poisson ratio': nu, 'yield strength': Y0,
                'kinematics': str(rng.choice(['small deformations', 'large deformations'])),
                'hardening model': 'linear', 'hardening modulus': float(E * 10.0 ** rng.uniform(-2, -1))}
    return {'kind': 'visco1', 'equilibrium bulk modulus': E, 'equilibrium shear modulus': E * 0.3,
            'non equilibrium shear modulus': float(E * rng.uniform(0.1, 1.0)), 'relaxation time': float(10.0 ** rng.uniform(-1, 1))}


def gen_program(rng, prop, tier, run_index):
    mode = 'dynamics' if prop == 'C15' else 'statics'
    if prop == 'C02' and rng.random() < 0.25:
        mode = 'dynamics'
    cfg = {'mode': mode, 'mesh': gen_mesh_cfg(rng, 2 if (mode == 'dynamics' or tier == 'quick') else 3),
           'material': gen_material(rng, mode, prop),
           'bcs': [[s, int(c)] for s in SIDES for c in (0, 1) if rng.random() < 0.3],
           'fseed': int(rng.integers(0, 2**31)), 'fault_mode': bool(rng.random() < 0.4)}
    ops = []
    if mode == 'dynamics':
        trap = bool(rng.random() < 0.6)
        gamma = 0.5 if trap else float(rng.uniform(0.5, 0.9))
        beta = 0.25 if trap else float(0.25 * (gamma + 0.5) ** 2 * rng.uniform(1.0, 1.5))
        cfg.update(gamma=gamma, beta=beta, scenario=str(rng.choice(['generic', 'translate'], p=[0.8, 0.2])),
                   dt0=float(10.0 ** (rng.uniform(-2, 0) if rng.random() < 0.7 else rng.uniform(-5.5, -2))), tol=float(10.0 ** rng.uniform(-11, -8)),
                   u0=float(10.0 ** rng.uniform(-3, -1)), v0=float(10.0 ** rng.uniform(-2, 0)))
        if cfg['scenario'] == 'translate':
            cfg['bcs'] = []
        n = int(rng.integers(2, 9))
        for k in range(n):
            r = rng.random()
            if r < 0.7:
                ops.append({'op': 'time_step', 'dtf': float(10.0 ** rng.uniform(-1.2, 1.2)) if rng.random() < 0.6 else 1.0,
                            **({'chol': [int(rng.choice([1, 3, 1023]))]} if cfg['fault_mode'] and rng.random() < 0.4 else {})})
            elif r < 0.85:
                ops.append({'op': 'cap_then_resume', 'cap': int(rng.integers(1, 4)), 'dtf': 1.0})
            else:
                ops.append({'op': 'restart'})
    else:
        cfg.update(mode2D=str(rng.choice(['plane strain', 'axisymmetric'], p=[0.7, 0.3])),
                   ppd=(None if rng.random() < 0.7 else int(rng.integers(0, 2))),
                   nblocks=int(rng.integers(1, 5)), blockseed=int(rng.integers(0, 2**31)),
                   dt=float(10.0 ** rng.uniform(-1, 1)))
        if cfg['nblocks'] > 1 and cfg['mode2D'] == 'plane strain':
            # runs with a block replica: exercise the projection options of the multi-block factory evenly,
            # on meshes where the projection is not the identity (order >= 2)
            cfg['ppd'] = [None, 0, 1][int(rng.integers(0, 3))]
            if rng.random() < 0.6:
                cfg['mesh']['order'] = max(cfg['mesh']['order'], 2)
                cfg['mesh']['nx'], cfg['mesh']['ny'] = min(cfg['mesh']['nx'], 3), min(cfg['mesh']['ny'], 3)
        cfg['helpers'] = bool(prop == 'C07')
        if prop == 'C07':
            cfg.update(mode2D='plane strain', ppd=None, nblocks=1)
            cfg['mesh']['order'] = min(cfg['mesh']['order'], 2)
            cfg['mesh']['nx'], cfg['mesh']['ny'] = min(cfg['mesh']['nx'], 3), min(cfg['mesh']['ny'], 3)
            if cfg['material']['kind'] == 'gent':
                cfg['material'] = {'kind': 'neohookean', 'elastic modulus': 10.0, 'poisson ratio': 0.3, 'version': 'coupled'}
            if rng.random() < 0.3:
                # rate-dependent material: the helper products depend on the time step
                cfg['material'] = {'kind': 'visco1', 'equilibrium bulk modulus': 10.0, 'equilibrium shear modulus': 3.0,
                                   'non equilibrium shear modulus': float(rng.uniform(1.0, 10.0)), 'relaxation time': float(10.0 ** rng.uniform(-1, 1))}
        if cfg['mode2D'] == 'axisymmetric':
            cfg['mesh']['shift'] = [abs(cfg['mesh']['shift'][0]) + 2.0, cfg['mesh']['shift'][1]]   # keep r > 0
        n = int(rng.integers(2, 7))
        for k in range(n):
            r = rng.random()
            if r < 0.45:
                ops.append({'op': 'prescribe', 'mag': float(10.0 ** rng.uniform(-3, -1)), 'useed': int(rng.integers(0, 2**31))})
            elif r < 0.75:
                ops.append({'op': 'load_step', 'mag': float(10.0 ** rng.uniform(-3, -1.3)), 'useed': int(rng.integers(0, 2**31)),
                            **({'chol': [int(rng.choice([1, 1023]))]} if cfg['fault_mode'] and rng.random() < 0.4 else {})})
            elif r < 0.86:
                ops.append({'op': 'rebuild_bcs', 'bcs': [[s, int(c)] for s in SIDES for c in (0, 1) if rng.random() < 0.3]})
            elif r < 0.93:
                # the caller re-creates its application on the same triangulation with another element numbering
                # (and, for linear triangles, another cyclic choice of each element's first vertex)
                ops.append({'op': 'reorder_elements', 'pseed': int(rng.integers(0, 2**31))})
            else:
                ops.append({'op': 'commit'})
    return {'engine': 'fe_app_sim', 'config': cfg, 'ops': ops}


def repair(program):
    return program if program['ops'] else None


def simplify(program):
    cfg = program['config']
    m = cfg['mesh']
    for key, val in (('order', 1), ('nx', 2), ('ny', 2), ('jitter', 0.0), ('quad_extra', 0)):
        if m[key] != val:
            yield dict(program, config=dict(cfg, mesh=dict(m, **{key: val})))
    if m['affine'] != [[1.0, 0.0], [0.0, 1.0]]:
        yield dict(program, config=dict(cfg, mesh=dict(m, affine=[[1.0, 0.0], [0.0, 1.0]])))
    if cfg.get('nblocks', 1) > 1:
        yield dict(program, config=dict(cfg, nblocks=1))
    if cfg.get('ppd') is not None:
        yield dict(program, config=dict(cfg, ppd=None))
    if cfg['bcs']:
        yield dict(program, config=dict(cfg, bcs=cfg['bcs'][:-1]))
    if cfg['material']['kind'] != 'linear' and cfg['mode'] == 'dynamics':
        yield dict(program, config=dict(cfg, material={'kind': 'linear', 'elastic modulus': 10.0, 'poisson ratio': 0.25,
                                                       'density': cfg['material'].get('density', 1.0), 'strain measure': 'linear'}))
    for i, op in enumerate(program['ops']):
        if op.get('chol'):
            ops = list(program['ops'])
            ops[i] = {k: v for k, v in op.items() if k != 'chol'}
            yield dict(program, ops=ops)
        if op.get('dtf', 1.0) != 1.0:
            ops = list(program['ops'])
            ops[i] = dict(op, dtf=1.0)
            yield dict(program, ops=ops)


# ----------------------------------------------------------------------------
# mesh / model construction
# ----------------------------------------------------------------------------

def build_mesh(L, m):
    Mesh, Surface, jnp = L['Mesh'], L['Surface'], L['jnp']
    nx, ny = m['nx'], m['ny']
    coords, conns = Mesh.create_structured_mesh_data(nx, ny, [0.0, 1.0], [0.0, 1.0])
    c = np.array(coords)
    rj = np.random.Generator(np.random.PCG64(int(m['jseed'])))
    interior = (c[:, 0] > 1e-8) & (c[:, 0] < 1 - 1e-8) & (c[:, 1] > 1e-8) & (c[:, 1] < 1 - 1e-8)
    h = min(1.0 / (nx - 1), 1.0 / (ny - 1))
    c[interior] += rj.uniform(-1, 1, size=(int(interior.sum()), 2)) * m['jitter'] * h
    tol = 1e-8
    nodeSets = {'left': np.flatnonzero(c[:, 0] < tol), 'right': np.flatnonzero(c[:, 0] > 1 - tol),
                'bottom': np.flatnonzero(c[:, 1] < tol), 'top': np.flatnonzero(c[:, 1] > 1 - tol)}
    sideSets = {
        'left': Surface.create_edges(jnp.asarray(c), conns, lambda xy: jnp.all(xy[:, 0] < tol)),
        'right': Surface.create_edges(jnp.asarray(c), conns, lambda xy: jnp.all(xy[:, 0] > 1 - tol)),
        'bottom': Surface.create_edges(jnp.asarray(c), conns, lambda xy: jnp.all(xy[:, 1] < tol)),
        'top': Surface.create_edges(jnp.asarray(c), conns, lambda xy: jnp.all(xy[:, 1] > 1 - tol))}
    ne = int(conns.shape[0])
    style = m.get('blocks_style', 'full')
    rb = np.random.Generator(np.random.PCG64(int(m['jseed']) + 5))
    if style == 'partition' and ne >= 2:
        cut = int(rb.integers(1, ne))
        blocks = {'a': jnp.arange(cut), 'b': jnp.arange(cut, ne)}
    elif style == 'partial' and ne >= 2:
        blocks = {'inclusion': jnp.asarray(np.sort(rb.choice(ne, size=max(1, ne // 3), replace=False)))}
    elif style == 'overlap' and ne >= 2:
        blocks = {'all': jnp.arange(ne), 'again': jnp.asarray(np.sort(rb.choice(ne, size=max(1, ne // 2), replace=False)))}
    elif style == 'none':
        blocks = None
    else:
        blocks = {'block': jnp.arange(ne)}
    mesh = Mesh.construct_mesh_from_basic_data(jnp.asarray(c), conns, blocks, {k: jnp.asarray(v) for k, v in nodeSets.items()}, sideSets)
    if m['order'] > 1:
        mesh = Mesh.create_higher_order_mesh_from_simplex_mesh(mesh, m['order'], createNodeSetsFromSideSets=True)
    X = np.asarray(mesh.coords) @ np.asarray(m['affine']).T + np.asarray(m['shift'])
    return mesh._replace(coords=jnp.asarray(X))


def material_model(L, mat):
    props = {k: v for k, v in mat.items() if k != 'kind'}
    mod = L['mats'][mat['kind']]
    factory = getattr(mod, 'create_material_model_functions', None) or mod.create_material_functions
    with core.quiet_stdout():
        return factory(props)


class Base:
    def __init__(self, program, ctx):
        self.L = L = lib()
        self.ctx = ctx
        self.cfg = cfg = program['config']
        self.mesh = build_mesh(L, cfg['mesh'])
        order = cfg['mesh']['order']
        self.qdeg = max(1, 2 * (order - 1) + cfg['mesh']['quad_extra']) if cfg['mode'] == 'statics' else 2 * order
        self.quad = L['QR'].create_quadrature_rule_on_triangle(degree=self.qdeg)
        self.plan = seams.chol_plan(ctx)
        self.rng = np.random.Generator(np.random.PCG64(int(cfg['fseed'])))
        self.X = np.asarray(self.mesh.coords)
        self.nn = self.X.shape[0]

    def make_dofs(self, bcs):
        FS = self.L['FS']
        ebcs = [FS.EssentialBC(nodeSet=s, component=c) for s, c in bcs]
        return FS.DofManager(self.fs, 2, ebcs)

    def smooth_field(self, seed, mag):
        r = np.random.Generator(np.random.PCG64(int(seed)))
        G = r.normal(size=(2, 2))
        Q = r.normal(size=(2, 2, 2)) * 0.5
        Xc = self.X - self.X.mean(axis=0)
        U = Xc @ G.T + np.einsum('ijk,nj,nk->ni', Q, Xc, Xc) + 0.2 * r.normal(size=self.X.shape)
        return mag * U / (np.max(np.abs(U)) + 1e-300)

    def dense_hessian_columns(self, obj, Uu):
        jnp = self.L['jnp']
        n = Uu.size
        cols = []
        for j in range(n):
            e = np.zeros(n)
            e[j] = 1.0
            cols.append(np.asarray(obj.hessian_vec(jnp.asarray(Uu), jnp.asarray(e)), dtype=float))
        return np.array(cols).T

    def check_K(self, K, H, what, sig):
        ctx = self.ctx
        K = np.asarray(K.todense()) if hasattr(K, 'todense') else np.asarray(K)
        scale = np.max(np.abs(H)) + 1e-300
        if not (np.all(np.isfinite(K)) and np.all(np.isfinite(H))):
            ctx.skip('C02.stiffness/nonfinite')
            return
        d = float(np.max(np.abs(K - H)))
        ctx.require(d <= 1e-9 * scale, 'C02', 'stiffness_equals_hessian/' + what,
                    lambda: 'assembled stiffness differs from the Hessian of the total energy by %.3g (|H| = %.3g)' % (d, scale), sig=sig)
        a = float(np.max(np.abs(K - K.T)))
        ctx.require(a <= 1e-10 * scale, 'C02', 'symmetric/' + what,
                    lambda: 'assembled stiffness is asymmetric by %.3g (|K| = %.3g)' % (a, scale), sig=sig)


# ----------------------------------------------------------------------------
# dynamics
# ----------------------------------------------------------------------------

class Dynamics(Base):
    def __init__(self, program, ctx):
        super().__init__(program, ctx)
        L, cfg = self.L, self.cfg
        jnp = L['jnp']
        self.fs = L['FS'].construct_function_space(self.mesh, self.quad)
        self.dofs = self.make_dofs(cfg['bcs'])
        self.mat = material_model(L, cfg['material'])
        self.rho = cfg['material']['density']
        self.gamma, self.beta = cfg['gamma'], cfg['beta']
        self.build_functions()
        self.state = self.dyn.compute_initial_state()
        self.M = self.oracle_mass()
        self.unk = np.asarray(self.dofs.isUnknown)
        nu = int(self.unk.sum())
        if nu == 0:
            raise core.RunAbort('no unknown dofs')
        # mass clause (static; checked once per configuration)
        em = np.asarray(self.dyn.compute_element_masses())
        area = float(np.sum(np.asarray(self.fs.vols)))
        tot = np.array([np.sum(em[:, :, c, :, c]) for c in range(2)])
        ctx.require(np.all(np.abs(tot - self.rho * area) <= 1e-12 * self.rho * area), 'C15', 'mass_total',
                    lambda: 'sum of the consistent mass entries %s != density * area = %.12g' % (tot, self.rho * area))
        ctx.require(abs(np.sum(em[:, :, 0, :, 1])) <= 1e-13 * self.rho * area, 'C15', 'mass_total',
                    'mass matrix couples the two displacement components')
        # initial conditions
        if cfg['scenario'] == 'translate':
            v = self.rng.normal(size=2) * cfg['v0']
            U0 = np.zeros((self.nn, 2))
            V0 = np.tile(v, (self.nn, 1))
            self.vconst = v
        else:
            U0 = self.smooth_field(cfg['fseed'] + 1, cfg['u0'])
            V0 = self.smooth_field(cfg['fseed'] + 2, cfg['v0'])
            U0[~self.unk] = 0.0
            V0[~self.unk] = 0.0
        self.Uu, self.Vu = U0[self.unk], V0[self.unk]
        # consistent initial acceleration: M A0 = -grad SE(U0)
        r0 = self.grad_se(self.field(self.Uu))[self.unk]
        Muu = self.M_uu()
        self.Au = -np.linalg.solve(Muu, r0)
        self.t = 0.0
        self.dt = float(cfg['dt0'])
        self.make_objective()
        self.E_prev = self.energy(self.Uu, self.Vu)
        self.r_prev = Muu @ self.Au + r0

    def build_functions(self):
        L = self.L
        params = L['Mech'].NewmarkParameters(gamma=self.gamma, beta=self.beta)
        self.dyn = L['Mech'].create_dynamics_functions(self.fs, 'plane strain', self.mat, params)
        self.g_se = L['jax'].jit(L['jax'].grad(lambda U, s: self.dyn.compute_output_strain_energy(U, s, 0.0)))

    def oracle_mass(self):
        """consistent mass assembled by the oracle from shapes, vols, density (scalar field matrix)"""
        sh, vols, conns = np.asarray(self.fs.shapes), np.asarray(self.fs.vols), np.asarray(self.mesh.conns)
        M = np.zeros((self.nn, self.nn))
        for e in range(conns.shape[0]):
            Me = np.einsum('q,qi,qj->ij', vols[e], sh[e], sh[e]) * self.rho
            M[np.ix_(conns[e], conns[e])] += Me
        return M

    def M_uu(self):
        """mass on the unknown dofs, dof ordering = row-major (node, component) restricted to unknowns"""
        full = np.kron(self.M, np.eye(2))
        idx = np.flatnonzero(self.unk.ravel())
        return full[np.ix_(idx, idx)]

    def field(self, Uu):
        U = np.zeros((self.nn, 2))
        U[self.unk] = Uu
        return U

    def grad_se(self, U):
        return np.asarray(self.g_se(self.L['jnp'].asarray(U), self.state), dtype=float)

    def energy(self, Uu, Vu):
        jnp = self.L['jnp']
        return float(self.dyn.compute_output_kinetic_energy(jnp.asarray(self.field(Vu)))) + \
            float(self.dyn.compute_output_strain_energy(jnp.asarray(self.field(Uu)), self.state, 0.0))

    def make_objective(self):
        L = self.L
        jnp, OBJ = L['jnp'], L['OBJ']
        dofs, dyn, state = self.dofs, self.dyn, self.state

        def energy(Uu, p):
            U = dofs.create_field(Uu, 0.0)
            UPre = dofs.create_field(p.dynamic_data, 0.0)
            dt = p.time[0] - p.time[1]
            return dyn.compute_algorithmic_energy(U, UPre, p.state_data, dt)

        def assemble(Uu, p):
            U = dofs.create_field(Uu, 0.0)
            UPre = dofs.create_field(p.dynamic_data, 0.0)
            dt = p.time[0] - p.time[1]
            H = dyn.compute_element_hessians(U, UPre, p.state_data, dt)
            return L['SMA'].assemble_sparse_stiffness_matrix(H, self.mesh.conns, dofs)
        self.assemble = assemble
        p = OBJ.Params(None, state, None, None, jnp.array([self.t, self.t - self.dt]), jnp.asarray(self.Uu))
        with core.quiet_stdout():
            self.obj = OBJ.Objective(energy, jnp.asarray(self.Uu), p, OBJ.PrecondStrategy(assemble))
        self.ctx.probe('objective_constructed')

    def time_step(self, op, cap=None):
        ctx, L = self.ctx, self.L
        jnp, ES, OBJ = L['jnp'], L['ES'], L['OBJ']
        dt = self.dt * op.get('dtf', 1.0)
        Un, Vn, An = self.Uu.copy(), self.Vu.copy(), self.Au.copy()
        with core.quiet_stdout():
            UuPre, VuPre = self.dyn.predict(jnp.asarray(Un), jnp.asarray(Vn), jnp.asarray(An), dt)
        t_new = self.t + dt
        p = OBJ.Params(None, self.state, None, None, jnp.array([t_new, self.t]), UuPre)
        # absolute gradient tolerance of the solve, scaled with the size of the terms in the gradient of the
        # algorithmic energy (inertia ~ M |U - UPre| / (beta dt^2)): a fixed absolute tolerance is below the
        # rounding of those terms for small dt
        mscale = float(np.max(np.diag(self.M))) / (self.beta * dt * dt) * (np.max(np.abs(Un)) + dt * np.max(np.abs(Vn)) + dt * dt * np.max(np.abs(An)) + 1e-300)
        tol = float(self.cfg['tol']) * max(1.0, mscale)
        settings = ES.get_settings(max_cg_iters=50, max_trust_iters=500 if cap is None else int(cap), min_tr_size=1e-13,
                                   tol=tol, debug_info=False)
        full = ES.get_settings(max_cg_iters=50, max_trust_iters=500, min_tr_size=1e-13, tol=tol, debug_info=False)
        self.plan.masks = list(op.get('chol', []))
        try:
            with core.quiet_stdout():
                Uu, ok = ES.nonlinear_equation_solve(self.obj, UuPre, p, settings, useWarmStart=False)
                resumes = 0
                if cap is not None:
                    ctx.fault('cap')
                    while not ok and resumes < 25:
                        Uu, ok = ES.nonlinear_equation_solve(self.obj, Uu, p, settings if resumes < 5 else full, useWarmStart=False)
                        resumes += 1
                    ctx.probe('resumes', resumes)
        except (core.RunTimeout, core.Violation):
            raise
        except Exception as e:
            ctx.violate('C15', 'completes', 'time step raised %r' % e, sig={'exc': type(e).__name__})
            return
        finally:
            self.plan.masks = []
        with core.quiet_stdout():
            Vu, Au = self.dyn.correct(Uu - UuPre, VuPre, jnp.asarray(An), dt)
        Uu, Vu, Au = (np.array(v, dtype=float) for v in (Uu, Vu, Au))
        ctx.log.add('time_step', dt=dt, ok=bool(ok), U=Uu, V=Vu, A=Au)
        ctx.nontrivial = True
        ctx.sim_time += dt
        g, b = self.gamma, self.beta
        sig = {'trapezoidal': bool(g == 0.5 and b == 0.25), 'material': self.cfg['material']['kind']}
        if not (core.finite(Uu) and core.finite(Vu) and core.finite(Au)):
            ctx.violate('C15', 'finite', 'non-finite U, V or A after a time step', sig=sig)
            return
        # 1. Newmark update formulas, from the oracle's own copy of (U,V,A)_n
        Uw = Un + dt * Vn + dt * dt * ((0.5 - b) * An + b * Au)
        Vw = Vn + dt * ((1 - g) * An + g * Au)
        su = np.max(np.abs(Uw)) + dt * np.max(np.abs(Vn)) + dt * dt * (np.max(np.abs(An)) + np.max(np.abs(Au))) + 1e-300
        sv = np.max(np.abs(Vw)) + dt * (np.max(np.abs(An)) + np.max(np.abs(Au))) + 1e-300
        ctx.require(np.max(np.abs(Uu - Uw)) <= 1e-12 * su, 'C15', 'newmark/displacement',
                    lambda: 'U_{n+1} deviates from the Newmark formula by %.3g (scale %.3g)' % (np.max(np.abs(Uu - Uw)), su), sig=sig)
        ctx.require(np.max(np.abs(Vu - Vw)) <= 1e-12 * sv, 'C15', 'newmark/velocity',
                    lambda: 'V_{n+1} deviates from the Newmark formula by %.3g (scale %.3g)' % (np.max(np.abs(Vu - Vw)), sv), sig=sig)
        # 2. balance of momentum on the unknown dofs
        Muu = self.M_uu()
        gse = self.grad_se(self.field(Uu))[self.unk]
        r = Muu @ Au + gse
        rscale = np.linalg.norm(np.abs(Muu) @ np.abs(Au)) + np.linalg.norm(gse) + 1e-300
        if ok:
            # the solver minimised the algorithmic energy, whose gradient is r scaled by nothing: |r| < tol
            ctx.require(np.linalg.norm(r) <= tol * (1 + 1e-6) + 1e-11 * rscale, 'C15', 'momentum',
                        lambda: '|M A + grad SE| = %.6g at the new time, solver tolerance %.3g' % (np.linalg.norm(r), tol), sig=sig)
        else:
            ctx.skip('C15.momentum/solver_reported_failure')
        # 3. energy identity (trapezoidal rule, linear elastic, homogeneous BCs, no loads)
        E = self.energy(Uu, Vu)
        if sig['trapezoidal'] and self.cfg['material']['kind'] == 'linear':
            lhs = E - self.E_prev
            rhs = 0.5 * (Uu - Un) @ (self.r_prev + r)
            escale = abs(E) + abs(self.E_prev) + 1e-300
            ctx.require(abs(lhs - rhs) <= 1e-11 * escale, 'C15', 'energy_identity',
                        lambda: 'E_{n+1}-E_n = %.6g but 1/2 dU.(r_n + r_{n+1}) = %.6g (E = %.6g): energy is not conserved by the step itself'
                        % (lhs, rhs, E), sig=sig)
            if ok:
                bound = tol * (1 + 1e-6) * np.linalg.norm(Uu - Un) + 2e-11 * escale + 0.5 * np.linalg.norm(Uu - Un) * np.linalg.norm(self.r_prev)
                ctx.require(abs(lhs) <= bound, 'C15', 'energy_conserved',
                            lambda: 'total energy changed by %.6g in one step (bound %.3g from the solver tolerance)' % (lhs, bound), sig=sig)
        # 4. rigid translation
        if self.cfg['scenario'] == 'translate':
            Uex = np.tile(self.vconst * t_new, (self.nn, 1))[self.unk]
            sc = np.max(np.abs(Uex)) + 1e-300
            ctx.require(np.max(np.abs(Uu - Uex)) <= 1e-12 * sc + 10 * tol / (np.min(np.diag(Muu)) / (b * dt * dt)), 'C15', 'rigid_translation',
                        lambda: 'constant-velocity translation off by %.3g after t = %.4g' % (np.max(np.abs(Uu - Uex)), t_new), sig=sig)
        # C02 dynamic clause: assembled Newmark Hessian == Hessian of the algorithmic energy
        self.obj.p = p
        K = self.assemble(jnp.asarray(Uu), p)
        H = self.dense_hessian_columns(self.obj, Uu)
        self.check_K(K, H, 'dynamics', {'material': self.cfg['material']['kind'], 'order': self.cfg['mesh']['order']})
        self.Uu, self.Vu, self.Au, self.t = Uu, Vu, Au, t_new
        self.E_prev, self.r_prev = E, r
        ctx.label('step:%s' % ('T' if ok else 'F'))

    def restart(self):
        """rebuild function space, dynamics functions and objective from caller-held U, V, A, t"""
        self.ctx.fault('restart')
        self.fs = self.L['FS'].construct_function_space(self.mesh, self.quad)
        self.dofs = self.make_dofs(self.cfg['bcs'])
        self.build_functions()
        self.make_objective()
        self.ctx.label('restart')


# ----------------------------------------------------------------------------
# statics
# ----------------------------------------------------------------------------

class Statics(Base):
    def __init__(self, program, ctx):
        super().__init__(program, ctx)
        L, cfg = self.L, self.cfg
        jnp = L['jnp']
        self.mode2D = cfg['mode2D']
        self.fs = L['FS'].construct_function_space(self.mesh, self.quad,
                                                   mode2D='axisymmetric' if self.mode2D == 'axisymmetric' else 'cartesian')
        self.mat = material_model(L, cfg['material'])
        self.sig = {'material': cfg['material']['kind'], 'mode2D': self.mode2D, 'ppd': cfg['ppd'] is not None,
                    'order': cfg['mesh']['order']}
        try:
            with core.quiet_stdout():
                self.mech = L['Mech'].create_mechanics_functions(self.fs, self.mode2D, self.mat, pressureProjectionDegree=cfg['ppd'])
        except (core.RunTimeout, core.Violation):
            raise
        except Exception as e:
            ctx.violate('C02', 'factory_option', 'create_mechanics_functions(mode2D=%r, pressureProjectionDegree=%r) raised %r'
                        % (self.mode2D, cfg['ppd'], e), sig=dict(self.sig, factory='single', exc=type(e).__name__))
            raise core.RunAbort('factory failed')
        self.dt = float(cfg['dt'])
        self.state = self.mech.compute_initial_state()
        self.U = np.zeros((self.nn, 2))
        self.set_bcs(cfg['bcs'])
        self.blocks = None
        if cfg['nblocks'] > 1 and self.mode2D == 'plane strain':
            self.make_block_replica()

    def set_bcs(self, bcs):
        self.bcs = bcs
        self.dofs = self.make_dofs(bcs)
        self.unk = np.asarray(self.dofs.isUnknown)
        self.make_objective()

    def make_objective(self):
        L = self.L
        jnp, OBJ = L['jnp'], L['OBJ']
        dofs, mech, dt = self.dofs, self.mech, self.dt

        def energy(Uu, p):
            U = dofs.create_field(Uu, p.bc_data)
            return mech.compute_strain_energy(U, p.state_data, dt)

        def assemble(Uu, p):
            U = dofs.create_field(Uu, p.bc_data)
            Ke = mech.compute_element_stiffnesses(U, p.state_data, dt)
            return L['SMA'].assemble_sparse_stiffness_matrix(Ke, self.mesh.conns, dofs)
        self.assemble = assemble
        p = OBJ.Params(jnp.asarray(self.U[~self.unk]), self.state)
        if int(self.unk.sum()) == 0:
            self.obj = None
            return
        with core.quiet_stdout():
            self.obj = OBJ.Objective(energy, jnp.asarray(self.U[self.unk]), p, OBJ.PrecondStrategy(assemble))

    def reorder_elements(self, op):
        L = self.L
        jnp = L['jnp']
        rb = np.random.Generator(np.random.PCG64(int(op['pseed'])))
        conns = np.asarray(self.mesh.conns)
        ne = conns.shape[0]
        perm = rb.permutation(ne)
        conns = conns[perm]
        if self.cfg['mesh']['order'] == 1:
            conns = np.array([np.roll(row, int(rb.integers(0, 3))) for row in conns])
        self.mesh = self.mesh._replace(conns=jnp.asarray(conns), blocks={'block': jnp.arange(ne)}, sideSets=None)
        self.state = jnp.asarray(np.asarray(self.state)[perm])
        self.fs = L['FS'].construct_function_space(self.mesh, self.quad,
                                                   mode2D='axisymmetric' if self.mode2D == 'axisymmetric' else 'cartesian')
        with core.quiet_stdout():
            self.mech = L['Mech'].create_mechanics_functions(self.fs, self.mode2D, self.mat, pressureProjectionDegree=self.cfg['ppd'])
        self.blocks = None
        self.replicas = []
        self.set_bcs(self.bcs)
        self.ctx.fault('restart')
        self.ctx.label('reorder_elements')

    def make_block_replica(self):
        """Several k-block replicas of the same mesh (same material in every block).  Swarm over how the
        element ids are split (random subsets / consecutive ranges) and in which order each block lists
        its ids (sorted, reversed, rotated, shuffled, end points kept + interior shuffled) and in which
        order the dict lists the blocks."""
        L, cfg = self.L, self.cfg
        jnp = L['jnp']
        ne = int(self.mesh.conns.shape[0])
        rb = np.random.Generator(np.random.PCG64(int(cfg['blockseed'])))
        nrep = 3 if cfg['material']['kind'] in ('linear', 'neohookean', 'gent') else 1
        self.replicas = []
        for rep in range(nrep):
            k = min(int(rb.integers(2, 5)) if rep else cfg['nblocks'], ne)
            split = str(rb.choice(['random', 'ranges']))
            order_style = str(rb.choice(['sorted', 'reversed', 'rotated', 'shuffled', 'ends_kept']))
            if split == 'ranges':
                cuts = np.sort(rb.choice(np.arange(1, ne), size=k - 1, replace=False)) if k > 1 else np.array([], dtype=int)
                lab = np.zeros(ne, dtype=int)
                for c in cuts:
                    lab[c:] += 1
            else:
                lab = rb.integers(0, k, size=ne)
                lab[:k] = np.arange(k)
                lab = lab[rb.permutation(ne)]
            names = ['b%d' % i for i in range(k)]
            order = list(rb.permutation(k))
            blocks = {}
            for i in order:
                ids = np.flatnonzero(lab == i)
                if order_style == 'reversed':
                    ids = ids[::-1]
                elif order_style == 'rotated' and len(ids) > 1:
                    ids = np.roll(ids, int(rb.integers(1, len(ids))))
                elif order_style == 'shuffled':
                    ids = ids[rb.permutation(len(ids))]
                elif order_style == 'ends_kept' and len(ids) > 3:
                    ids = np.concatenate([ids[:1], ids[1:-1][rb.permutation(len(ids) - 2)], ids[-1:]])
                blocks[names[i]] = jnp.asarray(ids)
            self.ctx.probe('block_style:%s/%s' % (split, order_style))
            mesh_b = self.mesh._replace(blocks=blocks)
            fs_b = L['FS'].construct_function_space(mesh_b, self.quad)
            models = {names[i]: self.mat for i in order}
            try:
                with core.quiet_stdout():
                    mech_b = L['Mech'].create_multi_block_mechanics_functions(fs_b, 'plane strain', models,
                                                                              pressureProjectionDegree=cfg['ppd'])
            except (core.RunTimeout, core.Violation):
                raise
            except Exception as e:
                self.ctx.violate('C02', 'factory_option', 'create_multi_block_mechanics_functions(pressureProjectionDegree=%r) raised %r'
                                 % (cfg['ppd'], e), sig=dict(self.sig, factory='multi', exc=type(e).__name__))
                return
            self.replicas.append({'blocks': blocks, 'mech': mech_b, 'state': mech_b.compute_initial_state(),
                                  'style': split + '/' + order_style})
        self.blocks = True
        self.ctx.probe('block_replicas', len(self.replicas))

    # -- invariants after every op ---------------------------------------------------------------
    def audit(self, what):
        ctx, L = self.ctx, self.L
        jnp = L['jnp']
        if self.obj is not None:
            Uu = self.U[self.unk]
            p = L['OBJ'].Params(jnp.asarray(self.U[~self.unk]), self.state)
            self.obj.p = p
            try:
                with core.quiet_stdout():
                    K = self.assemble(jnp.asarray(Uu), p)
                    H = self.dense_hessian_columns(self.obj, Uu)
            except (core.RunTimeout, core.Violation):
                raise
            except Exception as e:
                ctx.violate('C02', 'completes', 'stiffness / Hessian evaluation raised %r' % e, sig=dict(self.sig, exc=type(e).__name__))
                return
            self.check_K(K, H, 'statics', self.sig)
            ctx.nontrivial = True
        if self.blocks is not None:
            Uj = jnp.asarray(self.U)
            with core.quiet_stdout():
                e1 = float(self.mech.compute_strain_energy(Uj, self.state, self.dt))
                k1 = np.asarray(self.mech.compute_element_stiffnesses(Uj, self.state, self.dt))
            for R in self.replicas:
                with core.quiet_stdout():
                    eb = float(R['mech'].compute_strain_energy(Uj, R['state'], self.dt))
                    kb = np.asarray(R['mech'].compute_element_stiffnesses(Uj, R['state'], self.dt))
                sigb = dict(self.sig, blocks=R['style'])
                if np.isfinite(e1) and np.all(np.isfinite(k1)):
                    # energy densities cancel at small strain (terms of the size of the modulus): the re-associated
                    # block sums differ by rounding of modulus x area, not of the energy itself
                    mod = self.cfg['material'].get('elastic modulus', self.cfg['material'].get('equilibrium bulk modulus', 1.0))
                    efloor = 1e-13 * mod * float(np.sum(np.abs(np.asarray(self.fs.vols)))) * 10
                    ctx.require(abs(e1 - eb) <= 1e-12 * abs(e1) + efloor, 'C02', 'blocks/energy',
                                lambda: 'energy of the %d-block replica %.15g != single-block %.15g' % (len(R['blocks']), eb, e1), sig=sigb)
                    sk = np.max(np.abs(k1)) + 1e-300
                    ctx.require(kb.shape == k1.shape and np.max(np.abs(k1 - kb)) <= 1e-12 * sk, 'C02', 'blocks/stiffness',
                                lambda: 'element stiffnesses of the %d-block replica (%s) differ from the single-block ones by %.3g (scale %.3g)'
                                % (len(R['blocks']), R['style'], np.max(np.abs(k1 - kb)), sk), sig=sigb)
                    ctx.probe('blocks_compared')
        # C10 FE level: output stresses are the derivative of the output energy densities
        self.fe_stress_check()

    def fe_stress_check(self):
        ctx, L = self.ctx, self.L
        jnp = L['jnp']
        if self.mode2D != 'plane strain' or self.cfg['ppd'] is not None:
            return
        Uj = jnp.asarray(self.U)
        with core.quiet_stdout():
            W, P = self.mech.compute_output_energy_densities_and_stresses(Uj, self.state, self.dt)
        W, P = np.asarray(W), np.asarray(P)
        if not (np.all(np.isfinite(W)) and np.all(np.isfinite(P))):
            return
        # integral of the energy densities equals the strain energy
        tot = float(np.sum(W * np.asarray(self.fs.vols)))
        with core.quiet_stdout():
            e = float(self.mech.compute_strain_energy(Uj, self.state, self.dt))
        ctx.require(abs(tot - e) <= 1e-11 * (abs(e) + np.sum(np.abs(W) * np.asarray(self.fs.vols)) + 1e-300), 'C10', 'fe_output/energy',
                    lambda: 'sum of output energy densities x volumes %.15g != strain energy %.15g' % (tot, e), sig=self.sig)
        # virtual work: dE/dU . dU == sum P : grad(dU) vol   (first variation; exact identity)
        dU = self.smooth_field(self.cfg['fseed'] + 77, 1.0)
        with core.quiet_stdout():
            g = np.asarray(L['jax'].grad(lambda U: self.mech.compute_strain_energy(U, self.state, self.dt))(Uj))
            grads = np.asarray(L['FS'].compute_field_gradient(self.fs, jnp.asarray(dU)))
        lhs = float(np.sum(g * dU))
        rhs = float(np.sum(P[:, :, :2, :2] * grads * np.asarray(self.fs.vols)[:, :, None, None]))
        sc = float(np.sum(np.abs(P[:, :, :2, :2] * grads) * np.asarray(self.fs.vols)[:, :, None, None])) + 1e-300
        mod = self.cfg['material'].get('elastic modulus', self.cfg['material'].get('equilibrium bulk modulus', 1.0))
        floor = 1e-13 * mod * float(np.sum(np.abs(grads) * np.asarray(self.fs.vols)[:, :, None, None]))
        ctx.require(abs(lhs - rhs) <= 1e-10 * sc + floor, 'C10', 'fe_output/virtual_work',
                    lambda: 'first variation of the energy %.12g != integral of output stress : grad(dU) %.12g' % (lhs, rhs), sig=self.sig)

    # -- C07 FE level: helper VJPs vs transposed dense Jacobians of the public forward maps ------------
    def adjoint_helpers_check(self):
        ctx, L = self.ctx, self.L
        jax, jnp, FS, Mech, MI, AFS = L['jax'], L['jnp'], L['FS'], L['Mech'], L['MI'], L['AFS']
        if self.mode2D != 'plane strain' or self.cfg['ppd'] is not None:
            return
        mesh, quad, mat, dt = self.mesh, self.quad, self.mat, self.dt
        X0 = jnp.asarray(self.X)
        Uj, st = jnp.asarray(self.U), jnp.asarray(self.state)
        shapeOnRef = L['Interp'].compute_shapes(mesh.parentElement, quad.xigauss)
        sig = dict(self.sig)
        r = np.random.Generator(np.random.PCG64(int(self.cfg['fseed']) + 99))

        # (a) function space rebuilt from perturbed coordinates == constructed directly on the moved mesh
        Xp = X0 + jnp.asarray(r.normal(size=self.X.shape) * 0.02 * (1.0 / max(self.cfg['mesh']['nx'], self.cfg['mesh']['ny'])))
        fa = AFS.construct_function_space_for_adjoint(Xp, shapeOnRef, mesh, quad)
        fd = FS.construct_function_space(mesh._replace(coords=Xp), quad)
        for name in ('shapes', 'vols', 'shapeGrads'):
            a, b = np.asarray(getattr(fa, name)), np.asarray(getattr(fd, name))
            ctx.require(a.shape == b.shape and np.array_equal(a, b), 'C07', 'adjoint_function_space',
                        lambda: 'function space rebuilt for shape sensitivities differs from direct construction in %s by %.3g'
                        % (name, np.max(np.abs(a - b)) if a.shape == b.shape else np.nan), sig=sig)
        ctx.require(np.array_equal(np.asarray(fa.mesh.coords), np.asarray(Xp)), 'C07', 'adjoint_function_space', 'coordinates not carried', sig=sig)

        # public forward maps, parameterised by coordinates
        def mech_at(X):
            fsx = FS.construct_function_space_from_parent_element(mesh._replace(coords=X), shapeOnRef, quad)
            return Mech.create_mechanics_functions(fsx, 'plane strain', mat)

        def ivs_update(U, q, X):
            return mech_at(X).compute_updated_internal_variables(U, q, dt)

        def energy(U, q, X):
            return mech_at(X).compute_strain_energy(U, q, dt)

        def close(name, got, want, scale_extra=0.0):
            got, want = np.asarray(got, dtype=float), np.asarray(want, dtype=float)
            if got.size == 0 and want.size == 0:
                ctx.skip('C07.helper/no_internal_variables')
                return
            if not (np.all(np.isfinite(got)) and np.all(np.isfinite(want))):
                ctx.skip('C07.helper/nonfinite')
                return
            # absolute floor: at (nearly) stress-free states the products are rounding noise of terms of the
            # size of the modulus
            mod_ = self.cfg['material'].get('elastic modulus', self.cfg['material'].get('equilibrium bulk modulus', 1.0))
            sc = np.max(np.abs(want)) + scale_extra + 1e-3 * mod_
            ctx.require(got.shape == want.shape and np.max(np.abs(got - want)) <= 1e-9 * sc, 'C07', 'helper_vjp/' + name,
                        lambda: '%s: helper product differs from the transposed action of the dense Jacobian by %.3g (scale %.3g)'
                        % (name, np.max(np.abs(got - want)) if got.shape == want.shape else np.nan, sc), sig=sig)
        try:
            with core.quiet_stdout():
                inv = MI.create_ivs_update_inverse_functions(self.fs, 'plane strain', mat)
                av = jnp.asarray(r.normal(size=np.asarray(st).shape))
                # dense Jacobians by forward mode over the public forward map
                J_U = jax.jacfwd(ivs_update, 0)(Uj, st, X0)          # state.shape + U.shape
                J_X = jax.jacfwd(ivs_update, 2)(Uj, st, X0)
                nd = np.asarray(st).ndim
                want_U = jnp.tensordot(av, J_U, axes=nd)
                want_X = jnp.tensordot(av, J_X, axes=nd)
                close('ivs_update_jac_disp', inv.ivs_update_jac_disp_vjp(Uj, st, av, dt), want_U)
                close('ivs_update_jac_coords', inv.ivs_update_jac_coords_vjp(Uj, st, X0, av, dt), want_X)
                # d(state_new)/d(state_old) per quadrature point: block diagonal of the dense Jacobian
                J_q = np.asarray(jax.jacfwd(ivs_update, 1)(Uj, st, X0))
                blocks = np.asarray(inv.ivs_update_jac_ivs_prev(Uj, st, dt))
                ne, nq, ns = np.asarray(st).shape
                dense_blocks = np.array([[J_q[e, q, :, e, q, :] for q in range(nq)] for e in range(ne)])
                close('ivs_update_jac_ivs_prev', blocks, dense_blocks, scale_extra=1.0)
                off = J_q.copy()
                for e in range(ne):
                    for q in range(nq):
                        off[e, q, :, e, q, :] = 0.0
                ctx.require(off.size == 0 or np.max(np.abs(off)) == 0.0, 'C07', 'helper_vjp/ivs_update_jac_ivs_prev',
                            'internal-variable update couples different quadrature points', sig=sig)
                # residual helpers
                def efun(U, qdesign, iv, X):
                    return energy(U, iv, X)
                res = MI.create_path_dependent_residual_inverse_functions(efun)
                vx = jnp.asarray(r.normal(size=self.U.shape))
                G_iv = jax.jacfwd(lambda iv: jax.grad(energy, 0)(Uj, iv, X0))(st)     # U.shape + state.shape
                G_X = jax.jacfwd(lambda X: jax.grad(energy, 0)(Uj, st, X))(X0)
                close('residual_jac_ivs_prev', res.residual_jac_ivs_prev_vjp(Uj, None, st, X0, vx), jnp.tensordot(vx, G_iv, axes=2))
                close('residual_jac_coords', res.residual_jac_coords_vjp(Uj, None, st, X0, vx), jnp.tensordot(vx, G_X, axes=2))
                res2 = MI.create_residual_inverse_functions(lambda U, qd, X: energy(U, st, X))
                close('residual_jac_coords_elastic', res2.residual_jac_coords_vjp(Uj, None, X0, vx), jnp.tensordot(vx, G_X, axes=2))
        except (core.RunTimeout, core.Violation):
            raise
        except Exception as e:
            ctx.violate('C07', 'helper_vjp/completes', 'helper products raised %r' % e, sig=dict(sig, exc=type(e).__name__))
            return
        ctx.probe('adjoint_helpers_checked')
        ctx.nontrivial = True

    # -- ops ------------------------------------------------------------------------------------------
    def admissible(self, U):
        g = np.asarray(self.L['FS'].compute_field_gradient(self.fs, self.L['jnp'].asarray(U)))
        J = np.linalg.det(g + np.eye(2))
        return bool(np.all(J > 0.3) and np.all(J < 3.0))

    def prescribe(self, op):
        Unew = self.U + self.smooth_field(op['useed'], op['mag'])
        if not self.admissible(Unew):
            self.ctx.probe('inadmissible_displacement_dropped')
            return
        self.U = Unew
        self.commit()
        self.ctx.label('prescribe')

    def commit(self):
        jnp = self.L['jnp']
        with core.quiet_stdout():
            new = self.mech.compute_updated_internal_variables(jnp.asarray(self.U), self.state, self.dt)
        if self.blocks is not None:
            for R in self.replicas:
                with core.quiet_stdout():
                    newb = R['mech'].compute_updated_internal_variables(jnp.asarray(self.U), R['state'], self.dt)
                a, b = np.asarray(new), np.asarray(newb)
                if a.size and np.all(np.isfinite(a)):
                    sc = np.max(np.abs(a)) + 1e-300
                    self.ctx.require(a.shape == b.shape and np.max(np.abs(a - b)) <= 1e-12 * sc, 'C02', 'blocks/state_update',
                                     lambda: 'internal-variable update of the block replica (%s) differs by %.3g' % (R['style'], np.max(np.abs(a - b))),
                                     sig=dict(self.sig, blocks=R['style']))
                R['state'] = newb
        if np.all(np.isfinite(np.asarray(new))):
            self.state = new
        else:
            self.ctx.probe('nan_state_not_committed')
        self.ctx.log.add('commit', state=np.asarray(self.state))

    def load_step(self, op):
        """move the essential boundary values, solve for the unknowns with the real solver, commit"""
        ctx, L = self.ctx, self.L
        jnp, ES, OBJ = L['jnp'], L['ES'], L['OBJ']
        if self.obj is None or int((~self.unk).sum()) == 0:
            return self.prescribe(op)
        target = self.U + self.smooth_field(op['useed'], op['mag'])
        Ubc = target[~self.unk]
        p = OBJ.Params(jnp.asarray(Ubc), self.state)
        settings = ES.get_settings(tol=1e-9, max_trust_iters=60, debug_info=False)
        self.plan.masks = list(op.get('chol', []))
        try:
            with core.quiet_stdout():
                Uu, ok = ES.nonlinear_equation_solve(self.obj, jnp.asarray(self.U[self.unk]), p, settings, useWarmStart=True)
        except (core.RunTimeout, core.Violation):
            raise
        except Exception as e:
            ctx.violate('C02', 'completes', 'load step raised %r' % e, sig=dict(self.sig, exc=type(e).__name__))
            return
        finally:
            self.plan.masks = []
        Unew = np.zeros_like(self.U)
        Unew[self.unk] = np.asarray(Uu)
        Unew[~self.unk] = Ubc
        ctx.log.add('load_step', ok=bool(ok), U=Unew)
        if not (np.all(np.isfinite(Unew)) and self.admissible(Unew)):
            ctx.probe('load_step_result_dropped')
            return
        self.U = Unew
        self.commit()
        ctx.label('load:%s' % ('T' if ok else 'F'))


def run_program(program, ctx):
    cfg = program['config']
    mat = cfg['material']['kind']
    if cfg['mode'] == 'dynamics':
        app = Dynamics(program, ctx)
        ctx.label('dyn:%s:o%d:%s' % (mat, cfg['mesh']['order'], cfg['scenario']))
        for i, op in enumerate(program['ops']):
            ctx.op_index = i
            ctx.log.add('op', i=i, name=op['op'])
            if op['op'] == 'time_step':
                app.time_step(op)
            elif op['op'] == 'cap_then_resume':
                app.time_step(op, cap=op['cap'])
            elif op['op'] == 'restart':
                app.restart()
        return
    app = Statics(program, ctx)
    ctx.label('sta:%s:o%d:%s:ppd%s:b%d' % (mat, cfg['mesh']['order'], cfg['mode2D'], cfg['ppd'], cfg['nblocks']))
    app.audit('initial')
    for i, op in enumerate(program['ops']):
        ctx.op_index = i
        ctx.log.add('op', i=i, name=op['op'])
        k = op['op']
        if k == 'prescribe':
            app.prescribe(op)
        elif k == 'load_step':
            app.load_step(op)
        elif k == 'commit':
            app.commit()
        elif k == 'rebuild_bcs':
            app.set_bcs(op['bcs'])
            ctx.label('rebuild_bcs')
        elif k == 'reorder_elements':
            app.reorder_elements(op)
        app.audit(k)
    if cfg.get('helpers'):
        app.adjoint_helpers_check()


def cleanup():
    seams.uninstall()
