"""Static descriptions that go into the evidence files (no heavy imports here)."""

COMMON_ASSUME = [
    'seeded sampling of histories and fault sequences: a clean batch is evidence, not proof',
    'single process, single thread: "schedule" means the order of caller operations only',
]

INFO = {
    'C20': dict(
        rule='one evaluation = one seeded program: mesh config (order 1-4, nx, ny, extents) + up to 14 '
             'caller ops (add_nodal/add_cell/bad_cell/add_sphere/add_edges/restart/write[+fault]) run against '
             'the real VTKWriter on an in-memory FS; every fault-free write is parsed by an independent '
             'legacy-VTK parser and compared with the reference dataset model. non-trivial = at least one '
             'write completed and was judged; distinct = distinct (order, op kind/dtype sequence, per-write '
             'outcome, fault kinds fired) signatures',
        sim_time_unit='completed writes judged',
        components={'real': ['optimism.VTKWriter', 'optimism.Mesh (structured + higher-order construction)',
                             'optimism.Interpolants'],
                    'stub': ['file system: optimism.VTKWriter.open -> in-memory SimFS with open/write fault plan']},
        probe_names=['write_twice_compared', 'fault_not_reached', 'seam_bypassed'],
        assumptions=COMMON_ASSUME + [
            'validity of a legacy-VTK file is what the independent token-based parser in sim/vtk_sim.py accepts '
            '(declared counts == records present, POINT_DATA == POINTS, CELL_DATA == CELLS)',
            'values at marker-sphere points of padded arrays are unspecified by the property and not compared',
            'partial files left by a faulted write are not judged; the next fault-free write is',
        ]),
}

_SOLVER_COMPONENTS = {'real': ['optimism.Objective (Objective, ScaledObjective, PrecondStrategy)', 'optimism.EquationSolver',
                               'optimism.WarmStart', 'optimism.SparseCholesky', 'scipy cg/gmres behind recording wrappers'],
                      'stub': ['sksparse.cholmod -> dense LAPACK Cholesky with an injected-failure plan (sim/fakes/sksparse)']}

INFO['C01'] = dict(
    rule='one evaluation = one seeded program: an objective family (Q+, Qc, Qi, S, L; n in 1..40; cond up to 1e8) + up to 9 caller '
         'ops (solve via nonlinear_equation_solve or trust_region_minimize with swarm-drawn settings, resume, refresh, warm_only, '
         'restart) + faults (Cholesky failure masks, NaN barrier, iteration/radius caps, stale preconditioner, truncated warm-start '
         'CG). Oracles on every callback iterate and return, against a closed-form numpy evaluator. non-trivial = at least one '
         'iterate reported; distinct = distinct (family, dimension class, op/outcome sequence, fault kinds fired) signatures',
    sim_time_unit='reported solver iterates', components=_SOLVER_COMPONENTS,
    probe_names=['tr:model_increase', 'tr:model_increase_accepted', 'tr:nan_trial', 'tr:accepted', 'tr:rejected',
                 'L:landing_start_built', 'flag_audit_informative', 'flag_audit_vacuous', 'forced_first_refresh'],
    assumptions=COMMON_ASSUME + [
        'rounding slack of the independent evaluator = 1e3 * eps * sum of term magnitudes; audits whose slack exceeds tol/10 are counted as vacuous',
        'convex clause premise: family Qc, cond <= 1e3, |x0 - x*| <= 50, get_settings() defaults, preconditioner refreshed',
        'known finding F-C01 (success exit at an uphill trial point) is reported as KNOWN-FINDING, not as VIOLATION'])
INFO['C06'] = dict(
    rule='same programs as C01 with indefinite / symmetric-start families emphasised; every call the running solvers make to '
         'solve_trust_region_minimization and dogleg_step is audited against dense references (H from hess-vec columns, M from '
         'the factorised preconditioner). non-trivial / distinct as C01',
    sim_time_unit='reported solver iterates', components=_SOLVER_COMPONENTS,
    probe_names=['cg:boundary', 'cg:neg curve', 'cg:interior', 'cg:interior_', 'cg:preconditioned_norm', 'dogleg',
                 'treigen:interior', 'treigen:boundary', 'treigen:hard_case'],
    assumptions=COMMON_ASSUME + [
        'in-situ only: the sub-problems audited are those the simulated drivers pose (CG n <= 40; treigen reduced models of dimension <= 4 through the sub-space driver); direct synthetic calls are NOT covered',
        'preconditioned-norm radius clauses are asserted (to 5e-2) only where the oracle\'s own CG keeps conjugacy to 1e-6; otherwise skipped and counted',
        'interior-residual clause skipped where the recurrence-drift allowance exceeds 10% of the tolerance'])
INFO['C19'] = dict(
    rule='same engine; programs emphasise load steps with warm start in the bc/design slots and a ScaledObjective replica driven in '
         'lock step with the plain Objective. non-trivial / distinct as C01',
    sim_time_unit='reported solver iterates', components=_SOLVER_COMPONENTS,
    probe_names=['scaled_compared'],
    assumptions=COMMON_ASSUME + [
        'warm-start clause uses the tolerance captured at the WarmStart.cg seam and is skipped when cg reports non-convergence, is truncated by the injector, or the Hessian is not PD',
        'every 12th run index is an al_sim history and every 12th an spg_sim history, whose hand-over assertions (objective.p identity, flag under the new parameters) count for this check'])
INFO['C04'] = dict(
    rule='one evaluation = objective family (Qc/Qi, n<=8) + up to 6 inequality constraints (linear, concave-quadratic ball, smooth '
         'nonlinear) arranged to be active / weakly active / redundant / infeasible at the start + up to 4 ops (al_solve, bound_solve, '
         'restart, refresh) with faults (sub-solver caps, Cholesky failures, GMRES caps). non-trivial = at least one normal return; '
         'distinct = (family, n, m, situation, op/outcome sequence, faults) signatures',
    sim_time_unit='outer AL iterations observed', components={'real': _SOLVER_COMPONENTS['real'] + ['optimism.AlSolver', 'optimism.ConstrainedObjective', 'optimism.BoundConstrainedObjective', 'optimism.BoundConstrainedSolver', 'optimism.NewtonSolver'], 'stub': _SOLVER_COMPONENTS['stub']},
    probe_names=['al:raised_not_converged', 'bound:raised_not_converged', 'start:infeasible'],
    assumptions=COMMON_ASSUME + [
        'KKT bounds are derived from the termination test |[grad_x L_A ; FB(kappa0 c, lam)]| < tol (DESIGN.md C04); a solve that raises is not a return',
        'convex clause: reference minimiser by active-set enumeration with dense Newton-KKT, used only if its own KKT residual verifies to 1e-9',
        'use_newton_only=True is excluded (that mode never returns normally)'])
INFO['C05'] = dict(
    rule='one evaluation = objective family (Qc/Qi, n<=12) + box (finite / one-sided / free / degenerate per coordinate) + start in the '
         'interior, on faces or at a vertex + up to 4 ops (spg_min, spg_solve with parameter change, restart) with caps and Cholesky '
         'faults; project / project_onto_tr monitored in situ. non-trivial = at least one reported iterate',
    sim_time_unit='reported solver iterates', components={'real': ['optimism.TrustRegionSPG', 'optimism.Objective', 'optimism.WarmStart', 'optimism.SparseCholesky', 'scipy.optimize.brentq'], 'stub': _SOLVER_COMPONENTS['stub']},
    probe_names=['spg:no_cauchy_point', 'project_tr:far', 'project_tr:near', 'spg:model_increase', 'spg:model_increase_significant'],
    assumptions=COMMON_ASSUME + [
        'trust-region-projection radius clause allows brentq\'s own default xtol/rtol on the segment parameter (4*(2e-12+4eps)*|target-centre|) and is skipped where that exceeds 1% of the radius',
        'RuntimeError("No acceptable Cauchy point") aborts the op; iterates reported before it are still judged'])
INFO['C07'] = dict(
    rule='one evaluation = K<=5 step forward history through nonlinear_solve_with_state or nonlinear_solve (design-only API with the '
         'other slots moved via objective.p), parameters smooth functions of theta (dim<=4), optional path-dependent state slot; then '
         'jax.vjp reverse sweep, optionally after objective.p was overwritten / the preconditioner refreshed elsewhere. Cotangent vs dense '
         'numpy IFT propagation. non-trivial = a cotangent was produced',
    sim_time_unit='forward load steps', components={'real': ['optimism.inverse.NonlinearSolve (both custom-VJP rules)'] + _SOLVER_COMPONENTS['real'], 'stub': _SOLVER_COMPONENTS['stub']},
    probe_names=['ift_compared', 'ift_bound_loose'],
    assumptions=COMMON_ASSUME + [
        'every 48th (quick) or 16th (thorough) run index is an FE-level history (fe_app_sim statics) ending with the MechanicsInverse / AdjointFunctionSpace helper audit against dense jacfwd Jacobians of the public forward maps',
        'IFT premise: forward solve converged (|grad| <= 10 tol) and Hessian PD at the returned solution, else skipped'])
_MAT = {'real': ['optimism.material.J2Plastic', 'optimism.material.Hardening', 'optimism.ScalarRootFind', 'optimism.TensorMath',
                 'optimism.material.HyperViscoelastic', 'optimism.material.MultiBranchHyperViscoelastic', 'jit(vmap(...)) over points'],
        'stub': []}
INFO['C09'] = dict(
    rule='one evaluation = one material configuration (kinematics x hardening x rate sensitivity, random admissible constants) driven '
         'through a seeded history of up to 24 ops on a batch of 8-16 points: step (proportional / reversing / rotating / tiny / large / '
         'exactly-at-yield), hold, dt_jump, dup_commit, trial evaluations, restart. Invariants per point after every step against a numpy '
         're-evaluation. non-trivial = at least one step executed',
    sim_time_unit='sum of dt', components=_MAT, probe_names=['plastic_point_steps', 'step:at_yield', 'material_compiled', 'nan_state_not_committed'],
    assumptions=COMMON_ASSUME + ['tolerance on yield consistency / variational clause = 100 x J2Plastic._TOLERANCE x Y0 (read from the module)',
                                 'known findings F-C09b/* (rate sensitivity, unresolvable root) are reported as KNOWN-FINDING'])
INFO['C10'] = dict(
    rule='same engine; at every state the histories reach, for up to 4 points per step: autodiff stress and directional tangent vs '
         '8th-order central differences of the library energy along seeded directions; stencils that straddle the yield switch are '
         'skipped and counted. FE-level output (energy densities x vols == strain energy; virtual work identity) is asserted inside fe_app_sim',
    sim_time_unit='sum of dt', components=_MAT, probe_names=['fd:yielding_point', 'fd:elastic_point'],
    assumptions=COMMON_ASSUME + ['tolerances 1e-6 (stress) / 1e-4 (tangent) relative to modulus x strain / modulus, plus stencil rounding; largest admissible step per point, stencil within a tenth of the distance to the yield switch'])
INFO['C11'] = dict(
    rule='same engine with the 1- and 3-branch viscoelastic models: steps and holds with dt/tau swept over 12 decades by dt_jump ops; '
         'dissipation >= 0, det Fv = 1, stored energy monotone in holds (recomputed from the state with numpy eigh), two-limit check at the start of each run',
    sim_time_unit='sum of dt / tau_min', components=_MAT, probe_names=['hold_steps'],
    assumptions=COMMON_ASSUME)
_FE = {'real': ['optimism.Mesh', 'optimism.FunctionSpace', 'optimism.QuadratureRule', 'optimism.Mechanics', 'optimism.SparseMatrixAssembler',
                'optimism.Objective', 'optimism.EquationSolver', 'optimism.SparseCholesky', 'material models'],
       'stub': _SOLVER_COMPONENTS['stub']}
INFO['C15'] = dict(
    rule='one evaluation = one small FE configuration (jittered + affinely distorted structured mesh, order 1-2, linear-elastic or '
         'neo-Hookean, Newmark parameters, BC subset) + up to 8 ops (time_step with variable dt, cap_then_resume, restart, Cholesky '
         'faults). After every step: Newmark formulas, momentum balance with an oracle-assembled mass matrix, exact trapezoidal energy '
         'identity, rigid translation. non-trivial = at least one completed step',
    sim_time_unit='simulated time (sum of dt)', components=_FE, probe_names=['resumes', 'objective_constructed'],
    assumptions=COMMON_ASSUME + ['energy clause premise: gamma=1/2, beta=1/4, linear-elastic, homogeneous BCs, no loads'])
INFO['C02'] = dict(
    rule='one evaluation = one FE configuration (mesh as C15, order 1-3, material in {linear, neo-Hookean x2, Gent, J2 x2, visco}, plane '
         'strain or axisymmetric, pressureProjectionDegree None/0/1, BC subset, 1-4 shuffled element blocks) + up to 6 ops (prescribe, '
         'load_step through the real solver, commit, rebuild_bcs); 25% of runs are dynamics runs. After every op: assembled K vs dense '
         'Hessian-vector columns of the total energy, symmetry, block replica vs single block (energy, state update, stiffness)',
    sim_time_unit='ops', components=_FE, probe_names=['blocks_compared'],
    assumptions=COMMON_ASSUME + ['fault relevance: none (no fault kind bears on this property; simulation contributes reached states, BC changes and the lock-step replica)'])
