"""Static descriptions that go into the evidence files (no heavy imports here)."""

COMMON_ASSUME = [
    'seeded sampling of histories and fault sequences: a clean batch is evidence, not proof',
    'single process, single thread: "schedule" means the order of caller operations only',
]

INFO = {
    'C20': dict(
        rule='one evaluation = one seeded program: mesh config (order 1-4, nx, ny, extents) + up to 14 '
             'caller ops (add_nodal/add_cell/bad_cell/add_sphere/add_edges/restart/write[+fault]) run against '
             'the real VTKWriter on an in-memory FS; every fault-free write is parsed by an independent '
             'legacy-VTK parser and compared with the reference dataset model. non-trivial = at least one '
             'write completed and was judged; distinct = distinct (order, op kind/dtype sequence, per-write '
             'outcome, fault kinds fired) signatures',
        sim_time_unit='completed writes judged',
        components={'real': ['optimism.VTKWriter', 'optimism.Mesh (structured + higher-order construction)',
                             'optimism.Interpolants'],
                    'stub': ['file system: optimism.VTKWriter.open -> in-memory SimFS with open/write fault plan']},
        probe_names=['write_twice_compared', 'fault_not_reached', 'seam_bypassed'],
        assumptions=COMMON_ASSUME + [
            'validity of a legacy-VTK file is what the independent token-based parser in sim/vtk_sim.py accepts '
            '(declared counts == records present, POINT_DATA == POINTS, CELL_DATA == CELLS)',
            'values at marker-sphere points of padded arrays are unspecified by the property and not compared',
            'partial files left by a faulted write are not judged; the next fault-free write is',
        ]),
}
