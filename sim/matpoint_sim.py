"""matpoint_sim: deformation / time-step histories of a batch of material points.

Serves C09 (J2 update invariants), C11 (viscoelastic invariants) and C10 (stress / tangent vs
finite differences of the energy at the states the histories reach).

Real: optimism.material.{J2Plastic, Hardening, HyperViscoelastic, MultiBranchHyperViscoelastic},
ScalarRootFind, TensorMath, evaluated the way the FE code does: jit(vmap(...)) over points.
Reference: closed-form numpy re-evaluation of strains, flow stress, incremental potential and
stored energies (numpy eigh; no code shared with the library).
"""
import numpy as np

from sim import core

_cache = {}


def lib():
    if 'L' not in _cache:
        import optimism  # noqa: F401
        import jax
        import jax.numpy as jnp
        from optimism.material import J2Plastic, HyperViscoelastic, MultiBranchHyperViscoelastic
        _cache['L'] = dict(jax=jax, jnp=jnp, J2=J2Plastic, V1=HyperViscoelastic, V3=MultiBranchHyperViscoelastic)
    return _cache['L']


# ----------------------------------------------------------------------------
# generation
# ----------------------------------------------------------------------------

def gen_material(rng, prop):
    if prop == 'C11' or (prop == 'C10' and rng.random() < 0.35):
        three = bool(rng.random() < 0.5)
        K = float(10.0 ** rng.uniform(0, 2))
        m = {'model': 'visco3' if three else 'visco1',
             'equilibrium bulk modulus': K, 'equilibrium shear modulus': float(K * 10.0 ** rng.uniform(-2, -0.3))}
        if three:
            for b in (1, 2, 3):
                m['non equilibrium shear modulus %d' % b] = float(10.0 ** rng.uniform(-2, 2))
                m['relaxation time %d' % b] = float(10.0 ** rng.uniform(-2, 2))
        else:
            m['non equilibrium shear modulus'] = float(10.0 ** rng.uniform(-2, 2))
            m['relaxation time'] = float(10.0 ** rng.uniform(-2, 2))
        return m
    E = float(10.0 ** rng.uniform(0, 3))
    Y0 = float(E * 10.0 ** (rng.uniform(-3.5, -1.5) if rng.random() < 0.75 else rng.uniform(-5.5, -3.5)))   # incl. very soft metals
    m = {'model': 'j2', 'elastic modulus': E, 'poisson ratio': float(rng.uniform(0.0, 0.45)),
         'yield strength': Y0,
         'kinematics': str(rng.choice(['large deformations', 'small deformations', 'seth hill'], p=[0.45, 0.4, 0.15])),
         'hardening model': str(rng.choice(['linear', 'voce', 'power law']))}
    if m['hardening model'] == 'linear':
        m['hardening modulus'] = float(E * 10.0 ** rng.uniform(-3, -0.5)) if rng.random() < 0.9 else 0.0
    elif m['hardening model'] == 'voce':
        m['saturation strength'] = float(Y0 * rng.uniform(1.1, 4.0))
        m['reference plastic strain'] = float(10.0 ** rng.uniform(-2.5, -0.5))
    else:
        m['hardening exponent'] = float(rng.uniform(1.5, 12.0))
        m['reference plastic strain'] = float(Y0 / E * 10.0 ** rng.uniform(-0.5, 1))
    if rng.random() < 0.35:
        m['rate sensitivity'] = 'power law'
        m['rate sensitivity stress'] = float(Y0 * 10.0 ** rng.uniform(-1, 1))
        m['rate sensitivity exponent'] = float(np.exp(rng.uniform(0, np.log(20.0))))
        m['reference plastic strain rate'] = float(10.0 ** rng.uniform(-3, 3))
    return m


def gen_program(rng, prop, tier, run_index):
    mat = gen_material(rng, prop)
    visco = mat['model'] != 'j2'
    npts = 8 if tier == 'quick' else 16
    cfg = {'material': mat, 'npts': npts, 'hseed': int(rng.integers(0, 2**31)),
           'plane': bool(rng.random() < 0.6), 'single_point_replica': bool(rng.random() < 0.2),
           'fd': bool(prop == 'C10' or rng.random() < 0.3)}
    if visco:
        taus = [mat[k] for k in mat if k.startswith('relaxation time')]
        dt0 = float(min(taus) * 10.0 ** rng.uniform(-2, 2))
        yscale = 0.05
    else:
        dt0 = float(10.0 ** rng.uniform(-2, 2))
        yscale = mat['yield strength'] / mat['elastic modulus']
    cfg['dt0'] = dt0
    nops = int(rng.integers(4, 25 if tier == 'quick' else 40))
    ops = []
    for k in range(nops):
        r = rng.random()
        if r < (0.45 if visco else 0.55):
            kind = str(rng.choice(['prop', 'reverse', 'rotate', 'tiny', 'large', 'at_yield', 'special'] if not visco
                                  else ['prop', 'reverse', 'rotate', 'tiny', 'large', 'special'],
                                  p=[0.27, 0.13, 0.2, 0.1, 0.12, 0.1, 0.08] if not visco else [0.22, 0.1, 0.38, 0.05, 0.17, 0.08]))
            ops.append({'op': 'step', 'kind': kind, 'mag': float(yscale * 10.0 ** rng.uniform(-0.5, 1.2)),
                        'dtf': float(10.0 ** rng.uniform(-1, 1)) if rng.random() < 0.5 else 1.0})
        elif r < 0.72:
            # holds: for the viscous models the interesting regime is dt >> tau after non-coaxial loading
            ops.append({'op': 'hold', 'dtf': float(10.0 ** (rng.uniform(-1.5, 3.0) if visco else rng.uniform(-1.5, 1.5)))})
        elif r < 0.80:
            ops.append({'op': 'dt_jump', 'decades': float(rng.uniform(-6, 6))})
        elif r < 0.88 and not visco:
            ops.append({'op': 'dup_commit'})
        elif r < 0.95:
            ops.append({'op': 'trial', 'k': int(rng.integers(1, 4)), 'mag': float(yscale * 10.0 ** rng.uniform(-0.5, 1))})
        else:
            ops.append({'op': 'restart'})
    if sum(1 for o in ops if o['op'] == 'restart') > 1:
        seen = False
        keep = []
        for o in ops:
            if o['op'] == 'restart':
                if seen:
                    continue
                seen = True
            keep.append(o)
        ops = keep
    return {'engine': 'matpoint_sim', 'config': cfg, 'ops': ops}


def repair(program):
    return program if program['ops'] else None


def simplify(program):
    cfg = program['config']
    mat = cfg['material']
    if cfg['npts'] > 2:
        yield dict(program, config=dict(cfg, npts=2))
    if cfg.get('single_point_replica'):
        yield dict(program, config=dict(cfg, single_point_replica=False))
    if 'rate sensitivity' in mat:
        m = {k: v for k, v in mat.items() if not k.startswith('rate sensitivity') and k != 'reference plastic strain rate'}
        yield dict(program, config=dict(cfg, material=m))
    if mat.get('kinematics') not in (None, 'small deformations'):
        yield dict(program, config=dict(cfg, material=dict(mat, kinematics='small deformations')))
    if mat.get('hardening model') in ('voce', 'power law'):
        m = {k: v for k, v in mat.items() if k not in ('saturation strength', 'reference plastic strain', 'hardening exponent')}
        m.update({'hardening model': 'linear', 'hardening modulus': mat['elastic modulus'] * 0.01})
        yield dict(program, config=dict(cfg, material=m))
    for i, op in enumerate(program['ops']):
        if op.get('dtf', 1.0) != 1.0:
            ops = list(program['ops'])
            ops[i] = dict(op, dtf=1.0)
            yield dict(program, ops=ops)
        if op['op'] == 'step' and op['kind'] != 'prop':
            ops = list(program['ops'])
            ops[i] = dict(op, kind='prop')
            yield dict(program, ops=ops)


# ----------------------------------------------------------------------------
# numpy reference
# ----------------------------------------------------------------------------

def dev(A):
    return A - np.trace(A) / 3.0 * np.eye(3)


def sym_fun(C, f):
    if not np.all(np.isfinite(C)):
        return np.full((3, 3), np.nan)
    w, V = np.linalg.eigh(0.5 * (C + C.T))
    return (V * f(w)) @ V.T


class J2Ref:
    TOL = None

    def __init__(self, mat, TOL):
        self.m = mat
        self.E, self.nu, self.Y0 = mat['elastic modulus'], mat['poisson ratio'], mat['yield strength']
        self.mu = 0.5 * self.E / (1 + self.nu)
        self.kappa = self.E / 3.0 / (1 - 2 * self.nu)
        self.kin = mat.get('kinematics', 'large deformations')
        self.TOL = TOL
        self.rate = 'rate sensitivity' in mat

    def elastic_strain(self, H, state):
        P = state[1:10].reshape(3, 3)
        if self.kin == 'small deformations':
            return 0.5 * (H + H.T) - P
        F = H + np.eye(3)
        if self.kin == 'seth hill':
            C = F.T @ F
            return (sym_fun(C, lambda w: w ** 0.25) - np.eye(3)) / 0.5 - P
        Fe = F @ np.linalg.inv(P)
        return sym_fun(Fe.T @ Fe, lambda w: 0.5 * np.log(w))

    def hard_energy(self, e):
        m = self.m
        h = m['hardening model']
        if h == 'linear':
            return m['yield strength'] * e + 0.5 * m['hardening modulus'] * e * e
        if h == 'voce':
            Ys, e0 = m['saturation strength'], m['reference plastic strain']
            return Ys * e + (Ys - self.Y0) * e0 * np.expm1(-e / e0)
        n, e0 = m['hardening exponent'], m['reference plastic strain']
        A = n * self.Y0 * e0 / (1.0 + n)
        return A * ((1.0 + e / e0) ** ((n + 1) / n) - 1.0)

    def hard_flow(self, e):
        m = self.m
        h = m['hardening model']
        if h == 'linear':
            return m['yield strength'] + m['hardening modulus'] * e
        if h == 'voce':
            Ys, e0 = m['saturation strength'], m['reference plastic strain']
            return Ys - (Ys - self.Y0) * np.exp(-e / e0)
        n, e0 = m['hardening exponent'], m['reference plastic strain']
        return self.Y0 * (1.0 + e / e0) ** (1.0 / n)

    def rate_energy(self, e, e_old, dt):
        if not self.rate:
            return 0.0 * e
        S, mm, r0 = self.m['rate sensitivity stress'], self.m['rate sensitivity exponent'], self.m['reference plastic strain rate']
        de = np.maximum(e - e_old, 0.0)
        return mm / (mm + 1) * S * r0 * dt * (de / dt / r0) ** ((mm + 1) / mm)

    def rate_stress(self, e, e_old, dt):
        if not self.rate:
            return 0.0 * e
        S, mm, r0 = self.m['rate sensitivity stress'], self.m['rate sensitivity exponent'], self.m['reference plastic strain rate']
        de = np.maximum(e - e_old, 0.0)
        return S * (de / dt / r0) ** (1.0 / mm)

    def mises(self, Ee):
        return 2 * self.mu * np.sqrt(1.5) * np.linalg.norm(dev(Ee))

    def yield_fn_trial(self, H, state):
        Ee = self.elastic_strain(H, state)
        return self.mises(Ee) - self.hard_flow(state[0])

    def potential(self, Ee_trial, e, e_old, dt):
        """incremental potential over a vector of candidate eqps values"""
        d = dev(Ee_trial)
        nd = np.linalg.norm(d)
        # dev(Ee_trial - (e - e_old) N), N = sqrt(3/2) d/|d|  ->  norm = |d| - sqrt(3/2)(e-e_old)
        r = nd - np.sqrt(1.5) * (e - e_old)
        return self.mu * r * r + self.hard_energy(e) + self.rate_energy(e, e_old, dt)


class ViscoRef:
    def __init__(self, mat):
        self.K, self.G = mat['equilibrium bulk modulus'], mat['equilibrium shear modulus']
        if mat['model'] == 'visco3':
            self.branches = [(mat['non equilibrium shear modulus %d' % b], mat['relaxation time %d' % b]) for b in (1, 2, 3)]
        else:
            self.branches = [(mat['non equilibrium shear modulus'], mat['relaxation time'])]

    def w_eq(self, H):
        F = H + np.eye(3)
        J = np.linalg.det(F)
        return 0.5 * self.G * (J ** (-2.0 / 3.0) * np.sum(F * F) - 3.0) + 0.5 * self.K * (0.5 * J * J - 0.5 - np.log(J))

    def branch_strain(self, H, Fv):
        Fe = (H + np.eye(3)) @ np.linalg.inv(Fv)
        return sym_fun(Fe.T @ Fe, lambda w: 0.5 * np.log(w))

    def stored_neq(self, H, state):
        tot = 0.0
        for b, (G, tau) in enumerate(self.branches):
            Ee = self.branch_strain(H, state[9 * b:9 * b + 9].reshape(3, 3))
            tot += G * np.sum(dev(Ee) ** 2)
        return tot


# finite-difference stencils (8th order central)
C1 = np.array([1 / 280, -4 / 105, 1 / 5, -4 / 5, 0, 4 / 5, -1 / 5, 4 / 105, -1 / 280])
C2 = np.array([-1 / 560, 8 / 315, -1 / 5, 8 / 5, -205 / 72, 8 / 5, -1 / 5, 8 / 315, -1 / 560])
OFF = np.arange(-4, 5)


# ----------------------------------------------------------------------------
# the simulated application
# ----------------------------------------------------------------------------

class App:
    def __init__(self, program, ctx):
        self.L = L = lib()
        self.ctx = ctx
        self.cfg = cfg = program['config']
        self.mat = mat = cfg['material']
        self.visco = mat['model'] != 'j2'
        self.N = int(cfg['npts'])
        self.build()
        jnp = L['jnp']
        if self.visco:
            self.ref = ViscoRef(mat)
            self.nb = len(self.ref.branches)
        else:
            self.ref = J2Ref(mat, L['J2']._TOLERANCE)
        s0 = np.asarray(self.model.compute_initial_state(), dtype=float).reshape(-1)
        self.state = np.tile(s0, (self.N, 1))
        self.H = np.zeros((self.N, 3, 3))
        self.dt = float(cfg['dt0'])
        self.rng = np.random.Generator(np.random.PCG64(int(cfg['hseed'])))
        self.dirs = self.rand_dirs()
        self.steps = 0
        self.holding = None
        self.sign = 1.0
        if self.visco:
            self.limits_check()

    def props(self):
        m = {k: v for k, v in self.mat.items() if k != 'model'}
        return m

    def build(self, fresh=False):
        L = self.L
        jax = L['jax']
        key = core.dumps(self.mat)
        memo = _cache.setdefault('models', {})
        if fresh or key not in memo:
            mod = {'j2': L['J2'], 'visco1': L['V1'], 'visco3': L['V3']}[self.mat['model']]
            with core.quiet_stdout():
                model = mod.create_material_model_functions(self.props())
            W = model.compute_energy_density
            fns = dict(
                model=model,
                f_upd=jax.jit(jax.vmap(model.compute_state_new, (0, 0, None))),
                f_W=jax.jit(jax.vmap(W, (0, 0, None))),
                f_P=jax.jit(jax.vmap(jax.grad(W, 0), (0, 0, None))),
                f_T=jax.jit(jax.vmap(lambda H, s, dt, D: jax.jvp(lambda h: jax.grad(W, 0)(h, s, dt), (H,), (D,))[1],
                                     (0, 0, None, 0))),
                f_q=jax.jit(jax.vmap(model.compute_material_qoi, (0, 0, None))),
                f_upd1=jax.jit(model.compute_state_new), f_W1=jax.jit(W))
            if len(memo) > 4:
                memo.clear()
            memo[key] = fns
            self.ctx.probe('material_compiled')
        for k, v in memo[key].items():
            setattr(self, k, v)

    def rand_dirs(self):
        D = self.rng.normal(size=(self.N, 3, 3))
        if self.cfg['plane']:
            D[:, 2, :] = 0
            D[:, :, 2] = 0
        D /= np.linalg.norm(D.reshape(self.N, -1), axis=1)[:, None, None]
        return D

    # -- library calls -----------------------------------------------------------------------
    def call(self, f, *a):
        jnp = self.L['jnp']
        try:
            with core.quiet_stdout():
                out = f(*[jnp.asarray(x) for x in a])
            return np.asarray(out, dtype=float)
        except (core.RunTimeout, core.Violation):
            raise
        except Exception as e:
            self.ctx.violate(self.P1, 'completes', 'material routine raised %r' % e, sig={'exc': type(e).__name__})

    @property
    def P1(self):
        return 'C11' if self.visco else 'C09'

    # -- ops -----------------------------------------------------------------------------------
    def special_states(self):
        """Deformations at which the elastic right Cauchy-Green tensor is (a multiple of) the identity: the
        undeformed configuration, pure dilatation, rigid rotation, and the elastically unloaded configuration
        F = R Fp (R Fv) reached after inelastic flow.  Degenerate eigenvalues: separate code paths in the
        tensor functions and their derivative rules."""
        Hn = np.zeros_like(self.H)
        for i in range(self.N):
            which = int(self.rng.integers(0, 4))
            th = float(self.rng.uniform(-0.6, 0.6))
            R = np.array([[np.cos(th), -np.sin(th), 0.0], [np.sin(th), np.cos(th), 0.0], [0.0, 0.0, 1.0]])
            if which == 0:
                F = np.eye(3)
            elif which == 1:
                a = float(1.0 + self.rng.uniform(-0.05, 0.05))
                F = a * np.eye(3) if not self.cfg['plane'] else np.diag([a, a, 1.0])
            elif which == 2:
                F = R
            else:
                if self.visco:
                    Fi = self.state[i, :9].reshape(3, 3)
                elif self.ref.kin == 'large deformations':
                    Fi = self.state[i, 1:10].reshape(3, 3)
                else:
                    Fi = np.eye(3) + self.state[i, 1:10].reshape(3, 3)
                F = R @ Fi
            Hn[i] = F - np.eye(3)
        return Hn

    def increments(self, op):
        kind, mag = op['kind'], op['mag']
        if kind == 'rotate':
            self.dirs = self.rand_dirs()
        if kind == 'reverse':
            self.sign = -self.sign
        scale = {'tiny': 1e-9, 'large': 0.35 if self.visco else 1e-1}.get(kind)
        if scale is None:
            scale = mag * (0.5 + self.rng.random(self.N))
        else:
            scale = scale * np.ones(self.N)
        dH = self.sign * self.dirs * np.asarray(scale)[:, None, None]
        if kind == 'at_yield' and not self.visco:
            # scale each point's increment so that the trial stress equals the flow stress to ~1 ulp
            for i in range(self.N):
                f0 = self.ref.yield_fn_trial(self.H[i], self.state[i])
                if f0 >= 0:
                    continue
                lo, hi = 0.0, 1.0
                g = lambda t: self.ref.yield_fn_trial(self.H[i] + t * self.dirs[i] * self.sign, self.state[i])
                k = 0
                while g(hi) < 0 and k < 60:
                    hi *= 2
                    k += 1
                if g(hi) < 0:
                    continue
                for _ in range(200):
                    mid = 0.5 * (lo + hi)
                    if g(mid) < 0:
                        lo = mid
                    else:
                        hi = mid
                dH[i] = (hi if self.rng.random() < 0.5 else lo) * self.dirs[i] * self.sign
            self.ctx.probe('step:at_yield')
        return dH

    def admissible(self, Hn):
        J = np.linalg.det(Hn + np.eye(3))
        small = (not self.visco) and self.ref.kin == 'small deformations'
        return (J > 0.2) & (J < 5.0) & (np.linalg.norm(Hn.reshape(len(Hn), -1), axis=1) < (3.0 if small else 1.5))

    def step(self, op, hold=False):
        ctx = self.ctx
        dt = self.dt * op.get('dtf', 1.0)
        if hold:
            Hn = self.H.copy()
        elif op.get('kind') == 'special':
            Hn = self.special_states()
            ctx.probe('step:special_state')
        else:
            Hn = self.H + self.increments(op)
            ok = self.admissible(Hn)
            if not np.all(ok):
                Hn[~ok] = self.H[~ok]        # keep those points where they are (an elastic hold)
                ctx.probe('step:inadmissible_increment_dropped', int(np.sum(~ok)))
        old = self.state
        new = self.call(self.f_upd, Hn, old, dt)
        ctx.log.add('step', dt=dt, hold=hold, state=new, H=Hn)
        self.steps += 1
        ctx.sim_time += self.sim_dt(dt)
        ctx.nontrivial = True
        if self.visco:
            self.check_visco(Hn, old, new, dt, hold)
        else:
            self.check_j2(Hn, old, new, dt)
        if self.cfg.get('single_point_replica'):
            one = self.call(self.f_upd1, Hn[0], old[0], dt)
            ctx.require(np.allclose(one, new[0], rtol=1e-12, atol=1e-14, equal_nan=True), self.P1, 'batch_vs_single',
                        lambda: 'single call and compiled batch disagree by %.3g' % np.max(np.abs(one - new[0])))
        if self.cfg.get('fd'):
            self.fd_check(Hn, old, dt)
        bad = ~np.all(np.isfinite(new), axis=1)
        if np.any(bad):
            # a caller cannot carry a NaN state forward: those points keep their old state and place
            new = np.where(bad[:, None], old, new)
            Hn = np.where(bad[:, None, None], self.H, Hn)
            ctx.probe('nan_state_not_committed', int(np.sum(bad)))
        self.H, self.state = Hn, new

    def sim_dt(self, dt):
        if self.visco:
            return dt / min(t for _, t in self.ref.branches)
        return dt

    # -- C09 ---------------------------------------------------------------------------------------
    def check_j2(self, Hn, old, new, dt):
        ctx, ref = self.ctx, self.ref
        TOL, Y0 = ref.TOL, ref.Y0
        rate = ref.rate
        sigk = {'kin': ref.kin, 'hard': self.mat['hardening model'], 'rate': rate}
        fin = np.all(np.isfinite(new), axis=1)
        if not np.all(fin):
            i = int(np.argmin(fin))
            sig = dict(sigk, tiny_root=self.tiny_root(Hn[i], old[i], dt), root_at_bracket_end=self.root_at_bracket_end(Hn[i], old[i], dt))
            ctx.violate('C09', 'finite_state', 'updated state of point %d is not finite (eqps_old=%.6g, dt=%.6g)' % (i, old[i, 0], dt), sig=sig)
            fin_idx = np.flatnonzero(fin)
        else:
            fin_idx = np.arange(self.N)
        nplastic = 0
        for i in fin_idx:
            e0, e1 = old[i, 0], new[i, 0]
            ctx.require(e1 >= e0, 'C09', 'irreversible',
                        lambda: 'eqps decreased from %.17g to %.17g' % (e0, e1), sig=sigk)
            P = new[i, 1:10].reshape(3, 3)
            if ref.kin == 'large deformations':
                ctx.require(abs(np.linalg.det(P) - 1.0) <= 1e-12 * (self.steps + 1), 'C09', 'isochoric',
                            lambda: 'det Fp = 1 %+.3g after %d steps' % (np.linalg.det(P) - 1.0, self.steps), sig=sigk)
            else:
                # each increment is eqps_inc * N with trace(N) = O(eps): accumulated trace <= ~eps * eqps
                ctx.require(abs(np.trace(P)) <= 1e-13 * (e1 + 1e-3), 'C09', 'isochoric',
                            lambda: 'trace of plastic strain = %.3g (|ep| = %.3g)' % (np.trace(P), np.linalg.norm(P)), sig=sigk)
            Ee_new = ref.elastic_strain(Hn[i], new[i])
            Ee_tr = ref.elastic_strain(Hn[i], old[i])
            flow = ref.hard_flow(e1) + ref.rate_stress(e1, e0, dt)
            f = ref.mises(Ee_new) - flow
            slack = 1e3 * core.EPS * (2 * ref.mu * (np.linalg.norm(Hn[i]) + np.linalg.norm(P) + 1e-3) + flow)
            # resolution limit: the residual cannot be reduced below |d(residual)/d(eqps)| x ulp(eqps); with rate
            # sensitivity that slope is S/(m dt r0) (de/(dt r0))^(1/m - 1), unbounded as the increment -> 0
            de = max(e1 - e0, 0.0)
            slope = 3 * ref.mu + abs(ref.hard_flow(e1 + 1e-8 * (abs(e1) + 1e-8)) - ref.hard_flow(e1)) / (1e-8 * (abs(e1) + 1e-8))
            if rate and de > 0:
                S_, m_, r0_ = self.mat['rate sensitivity stress'], self.mat['rate sensitivity exponent'], self.mat['reference plastic strain rate']
                slope += S_ / (m_ * dt * r0_) * (de / (dt * r0_)) ** (1.0 / m_ - 1.0)
            slack += 8 * np.spacing(max(e1, 1e-300)) * slope
            if e1 > e0:
                nplastic += 1
            if not f <= 100 * TOL * Y0 + slack:
                ctx.violate('C09', 'yield_consistent',
                            'point %d: Mises stress exceeds the flow stress by %.6g = %.3g Y0 after the update (tolerance %.3g Y0; eqps %.6g -> %.6g, dt %.4g)'
                            % (i, f, f / Y0, 100 * TOL, e0, e1, dt),
                            sig=dict(sigk, tiny_root=self.tiny_root(Hn[i], old[i], dt)))
            else:
                ctx.ok('C09.yield_consistent')
            # variational: the new eqps minimises the incremental potential on [e0, ub]
            ftr = ref.mises(Ee_tr) - ref.hard_flow(e0)
            if ftr > TOL * Y0:
                ub = e0 + ftr / (3 * ref.mu)
                grid = np.linspace(e0, ub, 801)
                phi = ref.potential(Ee_tr, grid, e0, dt)
                phi_new = float(ref.potential(Ee_tr, np.array([e1]), e0, dt)[0])
                best = float(np.min(phi))
                mag = ref.mu * np.sum(dev(Ee_tr) ** 2) + abs(ref.hard_energy(ub)) + abs(float(ref.rate_energy(np.array([ub]), e0, dt)))
                tolv = 100 * TOL * Y0 * (ub - e0) + 1e3 * core.EPS * mag
                if not phi_new <= best + tolv:
                    ctx.violate('C09', 'variational',
                                'point %d: incremental potential at the updated eqps %.17g is %.6g above its minimum over the admissible increments (tolerance %.3g)'
                                % (i, e1, phi_new - best, tolv), sig=dict(sigk, tiny_root=self.tiny_root(Hn[i], old[i], dt)))
                else:
                    ctx.ok('C09.variational')
        if nplastic:
            ctx.probe('plastic_point_steps', nplastic)
            ctx.label('pl')
        # commit transparency (rate independent): energy and stress before / after commit
        if not rate and len(fin_idx) == self.N:
            Wb, Wa = self.call(self.f_W, Hn, old, dt), self.call(self.f_W, Hn, new, dt)
            Pb, Pa = self.call(self.f_P, Hn, old, dt), self.call(self.f_P, Hn, new, dt)
            strain = np.linalg.norm(Hn.reshape(self.N, -1), axis=1) + np.linalg.norm(new[:, 1:10], axis=1) + 1e-3
            dW = np.abs(Wb - Wa)
            tolW = 100 * TOL * Y0 * strain + 1e3 * core.EPS * (np.abs(Wb) + ref.E * strain**2)
            i = int(np.argmax(dW - tolW))
            ctx.require(np.all(dW <= tolW), 'C09', 'commit_transparent/energy',
                        lambda: 'point %d: energy before/after commit differs by %.6g (tolerance %.3g)' % (i, dW[i], tolW[i]), sig=sigk)
            dP = np.linalg.norm((Pb - Pa).reshape(self.N, -1), axis=1)
            tolP = 1e3 * TOL * Y0 + 1e4 * core.EPS * ref.E * strain
            j = int(np.argmax(dP - tolP))
            ctx.require(np.all(dP <= tolP), 'C09', 'commit_transparent/stress',
                        lambda: 'point %d: stress before/after commit differs by %.6g (tolerance %.3g)' % (j, dP[j], tolP[j]), sig=sigk)

    def root_at_bracket_end(self, H, s_old, dt):
        """Signature helper: does the exact plastic increment coincide (to rounding) with the upper
        end of the library's root bracket, i.e. is the hardening slope negligible against 3 mu over
        the increment (perfect plasticity, saturated Voce, large power-law exponent)?"""
        ref = self.ref
        Ee = ref.elastic_strain(H, s_old)
        e0 = s_old[0]
        ftr = ref.mises(Ee) - ref.hard_flow(e0)
        if not ftr > 0:
            return False
        ub = e0 + ftr / (3 * ref.mu)
        rub = ref.hard_flow(ub) + float(ref.rate_stress(np.array([ub]), e0, dt)) - ref.hard_flow(e0)
        return bool(abs(rub) <= 1e-13 * ref.mises(Ee))

    def tiny_root(self, H, s_old, dt):
        """Signature helper for the known rate-sensitivity finding: is the exact plastic increment
        below the resolution of the library's root bracket?"""
        ref = self.ref
        if not ref.rate:
            return False
        Ee = ref.elastic_strain(H, s_old)
        e0 = s_old[0]
        ftr = ref.mises(Ee) - ref.hard_flow(e0)
        if not ftr > 0:
            return False
        ub = e0 + ftr / (3 * ref.mu)
        # exact root of  mises_trial - 3 mu de - flow(e0+de) - S (de/(dt r0))^(1/m) = 0 by bisection in log space
        nd = ref.mises(Ee)

        def r(de):
            return nd - 3 * ref.mu * de - ref.hard_flow(e0 + de) - float(ref.rate_stress(np.array([e0 + de]), e0, dt)[0])
        lo, hi = 1e-300, ub - e0
        if r(hi) > 0:
            return False
        for _ in range(400):
            mid = np.sqrt(lo * hi)
            if r(mid) > 0:
                lo = mid
            else:
                hi = mid
        de = hi
        return bool(de < 2.0 ** -40 * (ub - e0) or de < 4 * np.spacing(max(e0, 1e-300)))

    def dup_commit(self):
        ctx, ref = self.ctx, self.ref
        if ref.rate:
            ctx.skip('C09.idempotent/rate_dependent')
            return
        again = self.call(self.f_upd, self.H, self.state, self.dt)
        ctx.fault('dup')
        ctx.log.add('dup', state=again)
        d = np.linalg.norm(again - self.state, axis=1)
        tol = 1e-9 * (1 + np.linalg.norm(self.state, axis=1))
        i = int(np.argmax(d - tol))
        ctx.require(np.all(d <= tol), 'C09', 'idempotent',
                    lambda: 'point %d: repeating the update at the same deformation changed the state by %.3g' % (i, d[i]),
                    sig={'kin': ref.kin, 'hard': self.mat['hardening model']})
        self.state = again

    def trial(self, op):
        """What a solver does between commits: evaluate energy/stress at other deformations from the
        *old* state, without committing.  Must not disturb anything; results must be finite."""
        ctx = self.ctx
        for _ in range(op['k']):
            Ht = self.H + self.rand_dirs() * op['mag']
            ok = self.admissible(Ht)
            Ht[~ok] = self.H[~ok]
            W = self.call(self.f_W, Ht, self.state, self.dt)
            P = self.call(self.f_P, Ht, self.state, self.dt)
            rate_tiny = (not self.visco) and self.ref.rate
            if not (np.all(np.isfinite(W)) and np.all(np.isfinite(P))):
                i = int(np.argmin(np.isfinite(W) & np.all(np.isfinite(P.reshape(self.N, -1)), axis=1)))
                sig = {'where': 'trial'}
                if not self.visco:
                    sig.update(kin=self.ref.kin, hard=self.mat['hardening model'], rate=self.ref.rate,
                               tiny_root=self.tiny_root(Ht[i], self.state[i], self.dt),
                               root_at_bracket_end=self.root_at_bracket_end(Ht[i], self.state[i], self.dt))
                ctx.violate(self.P1, 'finite_energy', 'energy or stress not finite at a trial deformation (point %d)' % i, sig=sig)
            else:
                ctx.ok(self.P1 + '.finite_energy')
        ctx.label('trial')

    # -- C11 -------------------------------------------------------------------------------------------
    def limits_check(self):
        """virgin material: dt -> 0 gives the instantaneous energy, dt -> inf the equilibrium energy"""
        ctx, ref = self.ctx, self.ref
        D = self.rand_dirs() * 0.2 * self.rng.random(self.N)[:, None, None]
        s0 = self.state
        taus = [t for _, t in ref.branches]
        for lim in ('zero', 'inf'):
            dt = 1e-9 * min(taus) if lim == 'zero' else 1e9 * max(taus)
            W = self.call(self.f_W, D, s0, dt)
            for i in range(self.N):
                weq = ref.w_eq(D[i])
                neq = ref.stored_neq(D[i], s0[i])
                want = weq + (neq if lim == 'zero' else 0.0)
                tol = 20e-9 * neq * len(taus) + 1e3 * core.EPS * (abs(weq) + neq + ref.K * 0.1)
                ctx.require(abs(W[i] - want) <= tol, 'C11', 'limit/' + lim,
                            lambda: 'virgin energy at dt=%s is %.12g, %s hyperelastic value is %.12g (diff %.3g, tol %.3g)'
                            % ('1e-9 tau' if lim == 'zero' else '1e9 tau', W[i], 'instantaneous' if lim == 'zero' else 'equilibrium', want, W[i] - want, tol))

    def check_visco(self, Hn, old, new, dt, hold):
        ctx, ref = self.ctx, self.ref
        fin = np.all(np.isfinite(new))
        if not fin:
            ctx.violate('C11', 'finite_state', 'viscous state is not finite')
        q = self.call(self.f_q, Hn, old, dt)
        i = int(np.argmin(q))
        ctx.require(np.all(q >= 0), 'C11', 'dissipation_nonneg', lambda: 'reported dissipated energy %.6g < 0 at point %d' % (q[i], i))
        for b in range(self.nb):
            dets = np.linalg.det(new[:, 9 * b:9 * b + 9].reshape(self.N, 3, 3))
            j = int(np.argmax(np.abs(dets - 1)))
            ctx.require(np.all(np.abs(dets - 1) <= 1e-12 * (self.steps + 1)), 'C11', 'isochoric',
                        lambda: 'branch %d: det Fv = 1 %+.3g after %d steps' % (b, dets[j] - 1, self.steps))
        stored = np.array([ref.stored_neq(Hn[i], new[i]) for i in range(self.N)])
        if hold:
            prev = self.holding if self.holding is not None else np.array([ref.stored_neq(Hn[i], old[i]) for i in range(self.N)])
            k = int(np.argmax(stored - prev))
            # absolute floor: a fully relaxed branch has an elastic strain of rounding size (eps), i.e. a stored
            # energy of order G eps^2, which fluctuates
            gsum = sum(g_ for g_, _ in ref.branches)
            floor = 1e4 * core.EPS**2 * gsum * (1.0 + np.sum(Hn.reshape(self.N, -1)**2, axis=1))
            # the elastic strain of a branch is the logarithm of a near-identity tensor, known to an ABSOLUTE error
            # of order eps; the stored energy G |Ee|^2 therefore carries an error of order eps * sqrt(G * stored)
            floor = floor + 100 * core.EPS * np.sqrt(gsum * np.maximum(prev, 0.0))
            k = int(np.argmax(stored - prev * (1 + 1e-12) - floor))
            ctx.require(np.all(stored <= prev * (1 + 1e-12) + floor), 'C11', 'relaxation_monotone',
                        lambda: 'stored non-equilibrium energy rose from %.12g to %.12g during a hold (dt/tau_min = %.3g)'
                        % (prev[k], stored[k], self.sim_dt(dt)))
            # library energy at dt -> 0 from the new state equals W_eq + stored
            taumin = min(t for _, t in ref.branches)
            Wl = self.call(self.f_W, Hn, new, 1e-9 * taumin)
            want = np.array([ref.w_eq(Hn[i]) for i in range(self.N)]) + stored
            tol = 20e-9 * stored * self.nb + 1e3 * core.EPS * (np.abs(want) + ref.K * 0.1)
            k = int(np.argmax(np.abs(Wl - want) - tol))
            ctx.require(np.all(np.abs(Wl - want) <= tol), 'C11', 'stored_energy_consistent',
                        lambda: 'library energy at dt->0 (%.12g) differs from W_eq + stored energy recomputed from the state (%.12g)' % (Wl[k], want[k]))
            ctx.probe('hold_steps')
            self.holding = stored
        else:
            self.holding = None

    # -- C10 --------------------------------------------------------------------------------------------
    def fd_check(self, Hn, s_old, dt):
        """Stress and directional tangent from the library's autodiff vs 8th-order finite
        differences of the library's energy along seeded directions (state held at s_old)."""
        ctx = self.ctx
        npts = min(self.N, 4)
        D = self.rand_dirs()[:npts]
        Hs, st = Hn[:npts], s_old[:npts]
        # Step size per point.  The energy of the J2 models is analytic away from the yield switch (only C^m
        # across it with rate sensitivity), with features on the scale of the distance to the switch.  For each
        # point take the LARGEST step h <= 2e-4 (least rounding in the second difference) whose stencil
        #   (a) stays on one side of the switch with margin, and
        #   (b) spans less than a tenth of its distance to the switch (truncation ~ (span/distance)^8; a third was measured to leave 1e-7 relative error),
        # halving from 2e-4; points for which no such step exists down to 2e-4/2^12 are skipped and counted.
        hs = np.full(npts, 2e-4)
        use = np.ones(npts, dtype=bool)
        if self.visco:
            scaleE = self.ref.K + self.ref.G + sum(g for g, _ in self.ref.branches)
        else:
            scaleE = self.ref.E
            margin = 10 * self.ref.TOL * self.ref.Y0
            for i in range(npts):
                ok = False
                h = 2e-4
                for _ in range(13):
                    fs = np.array([self.ref.yield_fn_trial(Hs[i] + o * h * D[i], st[i]) for o in OFF])
                    one_side = bool(np.all(fs > margin) or np.all(fs < -margin))
                    if one_side and np.min(np.abs(fs)) >= 10.0 * (np.max(fs) - np.min(fs)):
                        ok = True
                        break
                    h *= 0.5
                if ok and self.ref.rate and self.tiny_root(Hs[i], st[i], dt):
                    ok = False
                if not ok:
                    use[i] = False
                    continue
                hs[i] = h
                ctx.probe('fd:yielding_point' if fs[4] > 0 else 'fd:elastic_point')
        ctx.skip('C10.fd/too_close_to_yield_switch', int(np.sum(~use)))
        if not np.any(use):
            return
        def stencil_energies(hvec):
            Hst = np.concatenate([Hs[i][None] + (OFF * hvec[i])[:, None, None] * D[i][None] for i in range(npts)])
            sst = np.repeat(st, len(OFF), axis=0)
            # pad to the batch size the jitted function was compiled for (avoid recompiles): tile
            reps = int(np.ceil(len(Hst) / self.N))
            pad = reps * self.N - len(Hst)
            Hp = np.concatenate([Hst, np.repeat(Hst[-1:], pad, axis=0)]) if pad else Hst
            sp = np.concatenate([sst, np.repeat(sst[-1:], pad, axis=0)]) if pad else sst
            W_ = np.concatenate([self.call(self.f_W, Hp[k * self.N:(k + 1) * self.N], sp[k * self.N:(k + 1) * self.N], dt)
                                 for k in range(reps)])[:len(Hst)]
            return W_.reshape(npts, len(OFF))
        Ws = stencil_energies(hs)
        Ws_half = stencil_energies(0.5 * hs)     # second stencil: the oracle validates itself (see below)
        Hfull = np.concatenate([Hs, np.repeat(Hs[-1:], self.N - npts, axis=0)])
        sfull = np.concatenate([st, np.repeat(st[-1:], self.N - npts, axis=0)])
        Dfull = np.concatenate([D, np.repeat(D[-1:], self.N - npts, axis=0)])
        P = self.call(self.f_P, Hfull, sfull, dt)[:npts]
        T = self.call(self.f_T, Hfull, sfull, dt, Dfull)[:npts]
        for i in range(npts):
            if not use[i]:
                continue
            if not np.all(np.isfinite(Ws[i])):
                ctx.skip('C10.fd/nonfinite_energy')
                continue
            hstep = float(hs[i])
            d1 = float(C1 @ Ws[i]) / hstep
            d2 = float(C2 @ Ws[i]) / hstep**2
            a1 = float(np.sum(P[i] * D[i]))
            a2 = float(np.sum(T[i] * D[i]))
            wmag = float(np.max(np.abs(Ws[i]))) + scaleE * hstep**2
            # rounding of the stencils + truncation; reference scales: stress ~ E*strain, tangent ~ E
            strain = np.linalg.norm(Hs[i]) + hstep * 4
            s_scale = scaleE * strain + 1e-300
            # measured baseline: stress 3e-13 (median) .. 4e-8 (soft materials, tiny strains) relative; tangent <= 1e-8;
            # injected derivative errors are >= 1e-4 (stress) / 1e-2 (tangent)
            # (four unchanged-tree soaks at other seeds kept producing isolated 1e-6-relative tangent / 1e-7-relative
            # stress discrepancies from the finite-difference side; every injected derivative error seen so far is
            # >= 2e-4 (stress) / 1e-2 (tangent) relative, so the tolerances sit two decades below those)
            # absolute rounding error of the energy: the strain measures are differences of O(1) quantities
            # (C^m - I, log C, F - I), so the energy carries an error of order eps * modulus * strain, not eps * W
            wround = core.EPS * (wmag + scaleE * strain)
            tol1 = 1e-6 * s_scale + 1e2 * wround / hstep
            tol2 = 1e-4 * scaleE + 1e3 * wround / hstep**2
            if 1e3 * wround / hstep**2 > 1e-3 * scaleE:
                # the admissible step is so small (point next to the yield switch) that rounding dominates
                ctx.skip('C10.fd/rounding_dominated')
                continue
            sig = {'model': self.mat['model'], 'kin': self.mat.get('kinematics'), 'rate': 'rate sensitivity' in self.mat}
            # Is the argument of a symmetric tensor function (log / power of C or Ce) at this point a matrix with
            # exactly repeated eigenvalues?  (known finding F-C10: the hand-written JVP rules select f'(lambda)
            # there, which is not differentiable once more)
            sig['tensor_arg_repeated_eigenvalues'] = self.repeated_eigs(Hs[i], st[i])
            if self.mat.get('kinematics') == 'seth hill':
                # TensorMath.pow_symm documents that its derivative is inaccurate for nearly (not exactly)
                # degenerate eigenvalues: the relative-difference formula loses ~eps/gap per derivative.
                # At small strains C = F'F is nearly a multiple of the identity.
                F_ = Hs[i] + np.eye(3)
                wC = np.linalg.eigvalsh(F_.T @ F_)
                gaps = np.array([abs(wC[a] - wC[b]) for a in range(3) for b in range(a + 1, 3)]) / wC[-1]
                if np.min(gaps) < 1e-5 and np.any(Hs[i] != 0.0):
                    # (nearly) repeated eigenvalues of C away from the exactly undeformed state, e.g. a rigid
                    # rotation, where F'F equals the identity only up to rounding: documented inaccuracy
                    ctx.skip('C10.fd/pow_symm_documented_inaccuracy')
                    continue
                # exactly repeated eigenvalues (C a multiple of the identity): recorded in the signature, see the
                # known finding F-C10 (second derivative of pow_symm at exact degeneracy)
                gaps = gaps[gaps > 0]
                if gaps.size:
                    gmin = float(np.min(gaps))
                    tol1 += s_scale * 200 * core.EPS / gmin + scaleE * 200 * core.EPS
                    tol2 += scaleE * 200 * core.EPS / gmin**2
                    if 200 * core.EPS / gmin**2 > 1e-3:
                        ctx.skip('C10.fd/pow_symm_documented_inaccuracy')
                        continue
            # self-validation of the finite-difference side: the same derivatives from a stencil of half the width
            # must agree with the first ones to a quarter of the tolerance; otherwise truncation (a kink nearby)
            # or rounding is polluting the reference and the point is skipped, not judged
            if not np.all(np.isfinite(Ws_half[i])):
                ctx.skip('C10.fd/nonfinite_energy')
                continue
            d1h = float(C1 @ Ws_half[i]) / (0.5 * hstep)
            d2h = float(C2 @ Ws_half[i]) / (0.5 * hstep)**2
            if abs(d1 - d1h) > 0.25 * tol1 or abs(d2 - d2h) > 0.25 * tol2:
                ctx.skip('C10.fd/stencils_disagree')
                continue
            ctx.require(abs(a1 - d1) <= tol1, 'C10', 'stress_vs_fd',
                        lambda: 'directional stress from autodiff %.12g vs finite difference of the energy %.12g (diff %.3g, tol %.3g)' % (a1, d1, a1 - d1, tol1), sig=sig)
            # the error of F-C10 sits in the term stress : (second derivative of the strain measure), so it scales
            # with the stress; an error that is large against the stress is something else
            sig['tangent_error_below_stress_norm'] = bool(abs(a2 - d2) <= 1.0 * float(np.linalg.norm(P[i])))
            ctx.require(abs(a2 - d2) <= tol2, 'C10', 'tangent_vs_fd',
                        lambda: 'directional tangent from autodiff %.12g vs second difference of the energy %.12g (diff %.3g, tol %.3g)' % (a2, d2, a2 - d2, tol2), sig=sig)

    def repeated_eigs(self, H, state):
        F = H + np.eye(3)
        mats = []
        if self.visco:
            for b in range(self.nb):
                Fe = F @ np.linalg.inv(state[9 * b:9 * b + 9].reshape(3, 3))
                mats.append(Fe.T @ Fe)
        elif self.ref.kin == 'large deformations':
            Fe = F @ np.linalg.inv(state[1:10].reshape(3, 3))
            mats.append(Fe.T @ Fe)
        elif self.ref.kin == 'seth hill':
            mats.append(F.T @ F)
        for Cm in mats:
            if not np.all(np.isfinite(Cm)):
                continue
            w = np.linalg.eigvalsh(0.5 * (Cm + Cm.T))
            if min(abs(w[1] - w[0]), abs(w[2] - w[1])) <= 1e-14 * abs(w[2]):
                return True
        return False

    def restart(self):
        self.ctx.fault('restart')
        self.build(fresh=True)
        self.ctx.label('restart')


def run_program(program, ctx):
    app = App(program, ctx)
    mat = program['config']['material']
    ctx.label('%s:%s:%s:%s' % (mat['model'], mat.get('kinematics', '-'), mat.get('hardening model', '-'), 'rate' if 'rate sensitivity' in mat else 'ri'))
    for i, op in enumerate(program['ops']):
        ctx.op_index = i
        ctx.log.add('op', i=i, name=op['op'])
        k = op['op']
        if k == 'step':
            app.step(op)
            ctx.label('s:' + op['kind'])
        elif k == 'hold':
            app.step(op, hold=True)
            ctx.label('hold')
        elif k == 'dt_jump':
            app.dt = float(np.clip(app.dt * 10.0 ** op['decades'], 1e-9 * app.cfg['dt0'], 1e9 * app.cfg['dt0']))
            ctx.fault('dt_jump')
        elif k == 'dup_commit':
            if not app.visco:
                app.dup_commit()
        elif k == 'trial':
            app.trial(op)
        elif k == 'restart':
            app.restart()


def cleanup():
    _cache.pop('models', None)      # jitted closures must not survive a run (see solver_sim.cleanup)
