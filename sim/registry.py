"""Which engine decides which property, and the tier budgets.

runs: number of simulated runs per tier (fixed, so that a tier explores the same run
indices on every machine); budget_s: wall cap for the batch (a batch that exhausts it
stops early, reports how many runs it completed, and fails only if fewer than min_runs
finished); watchdog_s: per-run SIGALRM.
"""

PROPS = {
    'C20': dict(engine='vtk_sim',
                quick=dict(runs=1600, budget_s=60, min_runs=200),
                thorough=dict(runs=40000, budget_s=600, min_runs=2000),
                watchdog_s=30, spot=6),
    'C01': dict(engine='solver_sim',
                quick=dict(runs=1200, budget_s=120, min_runs=150),
                thorough=dict(runs=20000, budget_s=900, min_runs=1500),
                watchdog_s=120, spot=4, jaxcache=True),
    'C06': dict(engine='solver_sim',
                quick=dict(runs=1000, budget_s=150, min_runs=150),
                thorough=dict(runs=20000, budget_s=900, min_runs=1500),
                watchdog_s=120, spot=4, jaxcache=True),
    'C19': dict(engine='c19_sim',
                quick=dict(runs=720, budget_s=200, min_runs=100),
                thorough=dict(runs=12000, budget_s=1800, min_runs=1000),
                watchdog_s=240, spot=4, jaxcache=True),
    'C04': dict(engine='al_sim',
                quick=dict(runs=240, budget_s=180, min_runs=40),
                thorough=dict(runs=6000, budget_s=1800, min_runs=400),
                watchdog_s=400, spot=3, jaxcache=True),
    'C05': dict(engine='spg_sim',
                quick=dict(runs=192, budget_s=150, min_runs=40),
                thorough=dict(runs=4000, budget_s=1500, min_runs=400),
                watchdog_s=240, spot=3, jaxcache=True),
    'C07': dict(engine='c07_sim',
                quick=dict(runs=384, budget_s=420, min_runs=60),
                thorough=dict(runs=8000, budget_s=1800, min_runs=600),
                watchdog_s=600, spot=3, jaxcache=True),
    'C09': dict(engine='matpoint_sim',
                quick=dict(runs=48, budget_s=200, min_runs=16),
                thorough=dict(runs=1600, budget_s=1800, min_runs=200),
                watchdog_s=400, spot=2, jaxcache=True),
    'C10': dict(engine='matpoint_sim',
                quick=dict(runs=48, budget_s=200, min_runs=16),
                thorough=dict(runs=1600, budget_s=1800, min_runs=200),
                watchdog_s=400, spot=2, jaxcache=True),
    'C11': dict(engine='matpoint_sim',
                quick=dict(runs=48, budget_s=200, min_runs=16),
                thorough=dict(runs=1600, budget_s=1800, min_runs=200),
                watchdog_s=400, spot=2, jaxcache=True),
    'C15': dict(engine='fe_app_sim',
                quick=dict(runs=48, budget_s=300, min_runs=16),
                thorough=dict(runs=1200, budget_s=1800, min_runs=150),
                watchdog_s=900, spot=2, jaxcache=True),
    'C02': dict(engine='fe_app_sim',
                quick=dict(runs=32, budget_s=300, min_runs=12),
                thorough=dict(runs=1200, budget_s=1800, min_runs=150),
                watchdog_s=900, spot=2, jaxcache=True),
}


def engine_module(name):
    import importlib
    return importlib.import_module('sim.' + name)
