"""Seams the simulator owns: Cholesky fault plan, Krylov wrappers, sub-solver monitors.

Every patch is a module-attribute replacement recorded in a stack and undone by `uninstall()`
(called from each engine's cleanup()), so runs do not leak into each other.
"""
import numpy as np

from sim import core

_patches = []


def patch(module, name, value):
    _patches.append((module, name, module.__dict__.get(name, _patches)))
    setattr(module, name, value)


def uninstall():
    while _patches:
        module, name, old = _patches.pop()
        if old is _patches:
            try:
                delattr(module, name)
            except AttributeError:
                pass
        else:
            setattr(module, name, old)
    try:
        from sksparse import cholmod
        cholmod.PLAN.reset()
    except Exception:
        pass


# ----------------------------------------------------------------------------
# Cholesky fault plan
# ----------------------------------------------------------------------------

def chol_plan(ctx):
    from sksparse import cholmod
    plan = cholmod.PLAN
    plan.reset()

    def listener(kind, attempt):
        ctx.count('faults', kind)
        ctx.log.add('chol', kind=kind, attempt=attempt)
    plan.listener = listener
    return plan


# ----------------------------------------------------------------------------
# Krylov seams (scipy cg / gmres as imported by name into library modules)
# ----------------------------------------------------------------------------

class KrylovSeam:
    """Wraps a scipy Krylov routine: records what was requested and returned, can cap maxiter."""

    def __init__(self, real, ctx, name):
        self.real, self.ctx, self.name = real, ctx, name
        self.calls = []
        self.force_maxiter = None

    def __call__(self, A, b, *args, **kw):
        rec = {'b': np.array(b, dtype=float), 'kw': {k: kw[k] for k in kw if k in ('rtol', 'atol', 'tol', 'maxiter', 'restart')}}
        if self.force_maxiter is not None:
            kw = dict(kw, maxiter=self.force_maxiter)
            self.ctx.fault('krylov_truncate')
            rec['truncated'] = self.force_maxiter
        x, info = self.real(A, b, *args, **kw)
        rec['x'] = np.array(x, dtype=float)
        rec['info'] = int(info)
        self.calls.append(rec)
        self.ctx.log.add(self.name, info=int(info), x=rec['x'])
        return x, info


# ----------------------------------------------------------------------------
# C06 monitors
# ----------------------------------------------------------------------------

def dense_op(op, n):
    cols = []
    for j in range(n):
        e = np.zeros(n)
        e[j] = 1.0
        cols.append(np.asarray(op(e), dtype=float))
    return np.array(cols).T


def reference_cg_loss(H, g, precond, D, Mm, settings):
    """Steihaug CG with explicit inner products on the same data; returns the largest normalised
    violation of (i) r_i' P r_j = 0, (ii) d_i' H d_j = 0 over the iterations it performs."""
    n = g.size
    r = g.copy()
    Pr = np.asarray(precond(r), dtype=float)
    d = -Pr
    z = np.zeros(n)
    rs, Prs, ds, Hds = [r.copy()], [Pr.copy()], [], []
    rPr = r @ Pr
    tol2 = max(settings.cg_tol**2, settings.cg_inexact_solve_ratio**2 * (g @ g))
    loss = 0.0
    for _ in range(int(settings.max_cg_iters)):
        Hd = H @ d
        curv = d @ Hd
        ds.append(d.copy())
        Hds.append(Hd.copy())
        for j in range(len(ds) - 1):
            den = np.sqrt(abs(ds[j] @ Hds[j]) * abs(curv)) + 1e-300
            loss = max(loss, abs(ds[j] @ Hd) / den)
        if not curv > 0:
            break
        alpha = rPr / curv
        zn = z + alpha * d
        if zn @ (Mm @ zn) > D * D:
            break
        z = zn
        r = r + alpha * Hd
        Pr = np.asarray(precond(r), dtype=float)
        rPrn = r @ Pr
        for j in range(len(rs)):
            den = np.sqrt(abs(rs[j] @ Prs[j]) * abs(rPrn)) + 1e-300
            loss = max(loss, abs(rs[j] @ Pr) / den)
        rs.append(r.copy())
        Prs.append(Pr.copy())
        if r @ r < tol2 or not np.isfinite(rPrn):
            break
        beta = rPrn / rPr
        rPr = rPrn
        d = -Pr + beta * d
    return float(loss) if np.isfinite(loss) else np.inf


class SubproblemMonitor:
    """Audits every call the running solvers make to the CG sub-problem solver and the dogleg."""

    def __init__(self, ES, ctx, get_M):
        self.ES, self.ctx, self.get_M = ES, ctx, get_M
        self.real_cg = ES.solve_trust_region_minimization
        self.real_dogleg = ES.dogleg_step
        self.enabled = True

    def install(self):
        patch(self.ES, 'solve_trust_region_minimization', self.cg)
        patch(self.ES, 'dogleg_step', self.dogleg)

    # -- truncated CG ---------------------------------------------------------
    def cg(self, x, r, hess_vec_func, precond, trSize, settings, *extra):
        out = self.real_cg(x, r, hess_vec_func, precond, trSize, settings, *extra)
        if not self.enabled:
            return out
        ctx = self.ctx
        try:
            z, cp, stype, iters = out
        except (TypeError, ValueError):
            ctx.violate('C06', 'cg/returns', 'sub-problem solver returned %r' % (out,))
            return out
        z = np.asarray(z, dtype=float)
        g = np.asarray(r, dtype=float)
        n = g.size
        D = float(trSize)
        ctx.probe('cg:' + str(stype))
        if not (np.all(np.isfinite(g)) and np.isfinite(D)):
            ctx.skip('C06.cg/nonfinite_input')
            return out
        H = dense_op(hess_vec_func, n)
        if not np.all(np.isfinite(H)):
            ctx.skip('C06.cg/nonfinite_input')
            return out
        H = 0.5 * (H + H.T)
        pre = bool(settings.use_preconditioned_inner_product_for_cg)
        if pre:
            Mm = self.get_M(n)
            Mm = 0.5 * (Mm + Mm.T)
            if not np.all(np.isfinite(Mm)):
                ctx.skip('C06.cg/nonfinite_input')
                return out
            w = np.linalg.eigvalsh(Mm)
            condM = float(w[-1] / max(w[0], 1e-300)) if w[0] > 0 else np.inf
            ctx.probe('cg:preconditioned_norm')
        else:
            Mm = np.eye(n)
            condM = 1.0
        sig = {'type': str(stype).rstrip('_'), 'norm': 'M' if pre else 'euclid'}
        if not np.all(np.isfinite(z)):
            ctx.violate('C06', 'cg/finite', 'non-finite step from finite inputs', sig=sig)
            return out
        nz = float(np.sqrt(max(z @ (Mm @ z), 0.0)))
        normH = float(np.linalg.norm(H, 2))
        ctx.log.add('cg', type=str(stype), iters=int(iters), nz=nz, D=D)
        # tolerance on norms.  Euclidean mode: the solver recomputes z.d and d.d exactly each
        # iteration, so the norm is exact to rounding.  M mode: the Gould-Lucidi-Roma-Toint
        # recurrences for z'Md and d'Md are identities of *exact* CG (P-orthogonal residuals,
        # H-conjugate directions); in floating point they hold to the degree those relations
        # hold.  The oracle therefore runs its own Steihaug CG on the same data with explicit
        # inner products, measures the loss of orthogonality/conjugacy of that run, and allows
        # 1e3 x that loss (premise measured, not assumed).  Baseline: drift up to 2e-4 after
        # 9 iterations in dimension 8 with an indefinite Hessian.
        loss = 0.0
        if pre:
            loss = reference_cg_loss(H, g, precond, D, Mm, settings)
        if D > 0 and stype in ('boundary', 'neg curve'):
            dev = abs(nz / D - 1.0)
            ctx.probe('cg:%s_norm_dev<=1e%d' % (sig['norm'], max(-16, int(np.ceil(np.log10(max(dev, 1e-16)))))))
            if pre:
                if loss <= 1e-6:
                    ctx.probe('cg:M_dev_when_conjugacy_kept<=1e%d' % max(-16, int(np.ceil(np.log10(max(dev, 1e-16))))))
        # No clean gap exists for a tight M-mode tolerance (measured: drift/(1e3*loss) reaches 1, and
        # half the M-mode calls have loss > 1e-6).  Shipped: where the oracle's own run keeps
        # orthogonality/conjugacy to 1e-6 the norm must match to 5e-2 (measured drift there < 1e-3;
        # a wrong recurrence, sign or missing preconditioner is O(1)); otherwise the clause is skipped.
        ntol = 1e-9 if not pre else (5e-2 if loss <= 1e-6 else np.inf)
        if not np.isfinite(ntol):
            ctx.skip('C06.cg/norm_uninformative')
        else:
            ctx.require(nz <= D * (1 + ntol), 'C06', 'cg/inside',
                        lambda: 'step norm %.17g exceeds radius %.17g (type %s, %s norm)' % (nz, D, stype, sig['norm']),
                        sig=sig)
            if stype in ('boundary', 'neg curve'):
                ctx.require(abs(nz - D) <= D * ntol, 'C06', 'cg/on_boundary',
                            lambda: '%s step has norm %.17g, radius %.17g' % (stype, nz, D), sig=sig)

        def model(s):
            return float(g @ s + 0.5 * s @ (H @ s))

        def model_mag(s):
            return float(np.abs(g) @ np.abs(s) + 0.5 * np.abs(s) @ (np.abs(H) @ np.abs(s)))
        mz = model(z)
        # the oracle's own Cauchy step: along -P^{-1} g, clipped to the ball of the configured norm
        Pg = np.asarray(precond(g), dtype=float)
        cgtol2 = max(settings.cg_tol**2, (settings.cg_inexact_solve_ratio**2) * (g @ g))
        if np.all(np.isfinite(Pg)) and (g @ g) >= cgtol2 and np.linalg.norm(Pg) > 0:
            d0 = -Pg
            curv = float(d0 @ (H @ d0))
            dn = float(np.sqrt(max(d0 @ (Mm @ d0), 0.0)))
            tau_b = D / dn if dn > 0 else np.inf
            if curv > 0:
                tau = min(float(g @ Pg) / curv, tau_b)
            else:
                tau = tau_b
            zc = tau * d0
            mc = model(zc)
            slack = 1e-10 * abs(mc) + 1e3 * core.EPS * (n + 2) * (model_mag(z) + model_mag(zc))
            ctx.require(mz <= min(0.0, mc) + slack, 'C06', 'cg/cauchy_decrease',
                        lambda: 'model at step %.17g > min(0, model at Cauchy step %.17g) (type %s)' % (mz, mc, stype),
                        sig=sig)
        else:
            ctx.require(mz <= 1e3 * core.EPS * (n + 2) * model_mag(z), 'C06', 'cg/no_increase',
                        lambda: 'model increased: %.17g' % mz, sig=sig)
        if stype == 'interior':
            res = float(np.linalg.norm(H @ z + g))
            bound = float(np.sqrt(cgtol2)) * (1 + 1e-6)
            drift = 1e4 * core.EPS * (normH * np.linalg.norm(z) * (int(iters) + 1) + np.linalg.norm(g))
            if drift > 0.1 * bound:
                ctx.skip('C06.cg/interior_uninformative')
            else:
                ctx.require(res <= bound + drift, 'C06', 'cg/interior_residual',
                            lambda: 'interior step leaves residual %.6g > tolerance %.6g' % (res, bound), sig=sig)
        return out

    # -- dogleg ---------------------------------------------------------------
    def dogleg(self, cp, newtonP, trSize, mat_mul):
        out = self.real_dogleg(cp, newtonP, trSize, mat_mul)
        if not self.enabled:
            return out
        ctx = self.ctx
        cpn, qn, r = (np.asarray(v, dtype=float) for v in (cp, newtonP, out))
        D = float(trSize)
        if not (np.all(np.isfinite(cpn)) and np.all(np.isfinite(qn)) and np.isfinite(D)):
            ctx.skip('C06.dogleg/nonfinite_input')
            return out
        n = cpn.size
        Mm = dense_op(mat_mul, n)
        Mm = 0.5 * (Mm + Mm.T)
        if not np.all(np.isfinite(Mm)):
            ctx.skip('C06.dogleg/nonfinite_input')
            return out
        w = np.linalg.eigvalsh(Mm)
        if not (w[0] > 0):
            ctx.skip('C06.dogleg/metric_not_spd')
            return out
        condM = float(w[-1] / w[0])
        ntol = 1e-9 + 1e3 * core.EPS * condM
        if ntol > 1e-3:
            ctx.skip('C06.dogleg/uninformative')
            return out

        def nrm(v):
            return float(np.sqrt(max(v @ (Mm @ v), 0.0)))
        if not np.all(np.isfinite(r)):
            ctx.violate('C06', 'dogleg/finite', 'non-finite dogleg step from finite inputs')
            return out
        ctx.require(nrm(r) <= D * (1 + ntol), 'C06', 'dogleg/inside',
                    lambda: 'dogleg step norm %.17g exceeds radius %.17g' % (nrm(r), D))
        # on the path 0 -> cp -> qn ?
        scale = max(nrm(cpn), nrm(qn), 1e-300)
        best = np.inf
        cc = cpn @ cpn
        if cc > 0:
            t = min(max(float(r @ cpn) / cc, 0.0), 1.0)
            best = min(best, nrm(r - t * cpn))
        else:
            best = min(best, nrm(r))
        e = qn - cpn
        ee = e @ e
        if ee > 0:
            s = min(max(float((r - cpn) @ e) / ee, 0.0), 1.0)
            best = min(best, nrm(r - cpn - s * e))
        else:
            best = min(best, nrm(r - cpn))
        ctx.require(best <= 1e-9 * scale * (1 + condM * 1e-6), 'C06', 'dogleg/on_path',
                    lambda: 'dogleg step is %.3g (relative %.3g) away from the path 0->cp->qn'
                    % (best, best / scale))
        ctx.probe('dogleg')
        return out
