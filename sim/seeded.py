"""Handling of independently written breaking changes ("seeded" changes).

  python sim/seeded.py collect <id> [<srcdir>]    copy patch + demo from the author's worktree into /verif/seeded/<id>/
  python sim/seeded.py verify  <id> [--tests]     scratch worktree at /repo HEAD: demo passes without / fails with the patch; optionally full tests
  python sim/seeded.py detect  <id> [prop ...]    run the check(s) against the patched scratch worktree (VERIF_REPO), record the outcome
  python sim/seeded.py clean   <id>               remove the scratch worktree
"""
import json
import os
import re
import shutil
import subprocess
import sys
import time

VERIF = os.path.dirname(os.path.dirname(os.path.abspath(__file__)))
PY = '/venv/bin/python'


def sh(cmd, **kw):
    return subprocess.run(cmd, shell=isinstance(cmd, str), stdout=subprocess.PIPE, stderr=subprocess.STDOUT, text=True, **kw)


def meta_path(i):
    return os.path.join(VERIF, 'seeded', i, 'meta.json')


def load_meta(i):
    p = meta_path(i)
    return json.load(open(p)) if os.path.exists(p) else {'id': i}


def save_meta(i, m):
    with open(meta_path(i), 'w') as f:
        json.dump(m, f, indent=1)


def collect(i, src=None):
    src = src or '/tmp/wt_' + i.split('-')[0]
    dst = os.path.join(VERIF, 'seeded', i)
    os.makedirs(dst, exist_ok=True)
    diff = sh(['git', '-C', src, 'diff', '--', 'optimism']).stdout
    open(os.path.join(dst, 'patch.diff'), 'w').write(diff)
    if os.path.isdir(os.path.join(dst, 'demo')):
        shutil.rmtree(os.path.join(dst, 'demo'))
    shutil.copytree(os.path.join(src, 'demo'), os.path.join(dst, 'demo'),
                    ignore=shutil.ignore_patterns('__pycache__', '*.pyc', '*.vtk', '.pytest_cache'))
    m = load_meta(i)
    m.update(property=i.split('-')[0], files=sorted(set(re.findall(r'^\+\+\+ b/(.*)$', diff, re.M))),
             patch_lines=sum(1 for l in diff.splitlines() if l[:1] in '+-' and l[:3] not in ('+++', '---')))
    save_meta(i, m)
    print('collected', i, m['files'], m['patch_lines'], 'changed lines')


def scratch(i):
    return '/tmp/sv_' + i


def make_scratch(i, patched):
    d = scratch(i)
    if not os.path.isdir(d):
        sh(['git', '-C', '/repo', 'worktree', 'add', '-f', '--detach', d, 'HEAD'])
    sh(['git', '-C', d, 'checkout', '--', '.'])
    if patched:
        r = sh(['git', '-C', d, 'apply', os.path.join(VERIF, 'seeded', i, 'patch.diff')])
        if r.returncode != 0:
            r = sh(['git', '-C', d, 'apply', '--3way', os.path.join(VERIF, 'seeded', i, 'patch.diff')])
        return r.returncode == 0, r.stdout
    return True, ''


def run_demo(i):
    d = scratch(i)
    demo = os.path.join(VERIF, 'seeded', i, 'demo')
    env = dict(os.environ, PYTHONPATH=os.pathsep.join([d, demo]), JAX_PLATFORMS='cpu')
    t0 = time.time()
    r = sh([PY, 'demo.py'], cwd=demo, env=env, timeout=3600)
    return r.returncode, r.stdout[-1500:], time.time() - t0


def verify(i, tests=False):
    m = load_meta(i)
    ok, out = make_scratch(i, patched=False)
    rc0, out0, t0 = run_demo(i)
    ok, out = make_scratch(i, patched=True)
    if not ok:
        m['verify'] = {'applies_to_head': False, 'apply_output': out[-500:]}
        save_meta(i, m)
        print(i, 'PATCH DOES NOT APPLY to current /repo HEAD')
        return
    rc1, out1, t1 = run_demo(i)
    imp = sh([PY, '-c', 'import optimism, optimism.Mechanics, optimism.VTKWriter'], env=dict(os.environ, PYTHONPATH=scratch(i)))
    v = {'applies_to_head': True, 'repo_head': sh(['git', '-C', '/repo', 'rev-parse', '--short', 'HEAD']).stdout.strip(),
         'demo_exit_unpatched': rc0, 'demo_exit_patched': rc1, 'demo_tail_patched': out1[-600:],
         'imports': imp.returncode == 0,
         'commands': ['git worktree add --detach %s HEAD' % scratch(i), 'PYTHONPATH=%s:demo python demo.py  (unpatched) -> %d' % (scratch(i), rc0),
                      'git apply seeded/%s/patch.diff' % i, 'PYTHONPATH=%s:demo python demo.py  (patched) -> %d' % (scratch(i), rc1)]}
    if tests:
        t = sh('cd %s && %s -m pytest -q -p no:cacheprovider --timeout=900 --continue-on-collection-errors optimism 2>&1 | tail -3' % (scratch(i), PY))
        tail = t.stdout.strip().splitlines()[-1] if t.stdout.strip() else ''
        mm = re.search(r'(\d+) passed', tail)
        v['tests_summary'] = tail
        v['tests_passed'] = int(mm.group(1)) if mm else None
        v['commands'].append('pytest (baseline command) in the patched worktree -> ' + tail)
    m['verify'] = v
    save_meta(i, m)
    print(i, 'demo unpatched rc=%d patched rc=%d' % (rc0, rc1), v.get('tests_summary', ''))


def detect(i, props):
    m = load_meta(i)
    props = props or [m.get('property', i.split('-')[0])]
    ok, out = make_scratch(i, patched=True)
    if not ok:
        print('patch does not apply')
        return
    res = m.get('detect', {})
    for p in props:
        t0 = time.time()
        env = dict(os.environ, VERIF_REPO=scratch(i))
        r = sh([os.path.join(VERIF, 'check'), p, '--tier', os.environ.get('SEED_TIER', 'quick'), '--no-evidence'], env=env, cwd=VERIF)
        first = [l.strip() for l in r.stdout.splitlines() if 'clause=' in l][:2]
        res[p] = {'exit': r.returncode, 'wall_s': round(time.time() - t0, 1), 'first_violation': first,
                  'summary': r.stdout.splitlines()[0][:200] if r.stdout else '', 'tier': os.environ.get('SEED_TIER', 'quick'),
                  'seed': int(os.environ.get('VERIF_SEED', '0') or 0),
                  'runs_override': os.environ.get('VERIF_RUNS') or None}
        print(i, p, 'exit', r.returncode, first[:1])
    m['detect'] = res
    save_meta(i, m)


def clean(i):
    sh(['git', '-C', '/repo', 'worktree', 'remove', '--force', scratch(i)])
    shutil.rmtree(scratch(i), ignore_errors=True)


def table():
    rows = []
    for i in sorted(os.listdir(os.path.join(VERIF, 'seeded'))):
        if not os.path.exists(meta_path(i)):
            continue
        m = load_meta(i)
        v = m.get('verify', {})
        det = m.get('detect', {})
        d = '; '.join('%s: %s%s' % (p, {0: 'missed', 1: 'DETECTED', 2: 'harness error'}.get(r['exit'], r['exit']),
                                    (' (%s, %s' % (r.get('tier', 'quick'), (r['first_violation'][0].split(':')[0].replace('clause=', '') if r['first_violation'] else '')) + ')') if r['exit'] == 1 else '')
                      for p, r in det.items())
        rows.append('| %s | %s | %s | %s | demo %s/%s, tests %s | %s |' % (
            i, m.get('property'), (m.get('change') or '').replace('|', '/'), (m.get('needs_to_manifest') or '').replace('|', '/'),
            v.get('demo_exit_unpatched'), v.get('demo_exit_patched'), v.get('tests_passed', 'n/r'), d))
    print('| id | property | change | needs | verified (demo exit unpatched/patched, tests passed) | checks |')
    print('|---|---|---|---|---|---|')
    print('\n'.join(rows))


if __name__ == '__main__':
    if sys.argv[1] == 'table':
        table()
        sys.exit(0)
    cmd, i = sys.argv[1], sys.argv[2]
    if cmd == 'collect':
        collect(i, sys.argv[3] if len(sys.argv) > 3 else None)
    elif cmd == 'verify':
        verify(i, tests='--tests' in sys.argv)
    elif cmd == 'detect':
        detect(i, [a for a in sys.argv[3:] if not a.startswith('-')])
    elif cmd == 'clean':
        clean(i)
