"""Self tests of the machinery.

  python sim/selftest.py sensitivity [ids or property ids ...]   # mutants must be detected
  python sim/selftest.py determinism <prop> [runs]                # digests equal across processes
"""
import json
import os
import shutil
import subprocess
import sys
import tempfile
import time

sys.path.insert(0, os.path.dirname(os.path.dirname(os.path.abspath(__file__))))
from sim import core  # noqa: E402
from sim.mutants import MUTANTS  # noqa: E402

CHECK = os.path.join(core.VERIF_DIR, 'check')


def sensitivity(sel):
    results = []
    for mid, prop, path, old, new in MUTANTS:
        if sel and mid not in sel and prop not in sel:
            continue
        scratch = tempfile.mkdtemp(prefix='mut-', dir='/tmp')
        try:
            subprocess.check_call(['git', '-C', '/repo', 'worktree', 'add', '-f', '--detach', scratch, 'HEAD'],
                                  stdout=subprocess.DEVNULL, stderr=subprocess.DEVNULL)
            fn = os.path.join(scratch, path)
            src = open(fn).read()
            if src.count(old) != 1:
                results.append((mid, prop, 'MUTANT-DOES-NOT-APPLY (%d matches)' % src.count(old), 0))
                continue
            open(fn, 'w').write(src.replace(old, new))
            env = dict(os.environ, VERIF_REPO=scratch, VERIF_RUNS=os.environ.get('MUT_RUNS', ''))
            t0 = time.time()
            p = subprocess.run([CHECK, prop, '--tier', 'quick', '--no-evidence'], env=env,
                               stdout=subprocess.PIPE, stderr=subprocess.STDOUT, text=True)
            first = [l for l in p.stdout.splitlines() if 'clause=' in l][:1]
            results.append((mid, prop, 'detected' if p.returncode == 1 else 'MISSED rc=%d' % p.returncode,
                            time.time() - t0, first[0].strip()[:160] if first else p.stdout[-300:]))
        finally:
            subprocess.call(['git', '-C', '/repo', 'worktree', 'remove', '--force', scratch],
                            stdout=subprocess.DEVNULL, stderr=subprocess.DEVNULL)
            shutil.rmtree(scratch, ignore_errors=True)
        print(results[-1], flush=True)
    missed = [r for r in results if r[2] != 'detected']
    print('%d mutants, %d detected, %d not' % (len(results), len(results) - len(missed), len(missed)))
    return 1 if missed else 0


def determinism(prop, runs):
    """Same seed at worker counts 1-ish/4/16 and two PYTHONHASHSEEDs (the driver's spot check
    covers the hash seed): digests per run index must be identical."""
    outs = []
    for workers in (3, 16):
        f = tempfile.mktemp(prefix='dig-', dir='/tmp')
        subprocess.run([CHECK, prop, '--no-evidence', '--runs', str(runs), '--workers', str(workers),
                        '--dump-digests', f], stdout=subprocess.DEVNULL)
        outs.append(json.load(open(f)))
        os.remove(f)
    a, b = outs
    bad = [k for k in a if k in b and a[k] != b[k]]
    print('determinism %s: %d runs compared at 3 and 16 workers, %d mismatches %s' % (prop, len(a), len(bad), bad[:10]))
    return 1 if bad or not a else 0


if __name__ == '__main__':
    mode = sys.argv[1]
    if mode == 'sensitivity':
        sys.exit(sensitivity(set(sys.argv[2:])))
    if mode == 'determinism':
        sys.exit(determinism(sys.argv[2], int(sys.argv[3]) if len(sys.argv) > 3 else 64))
