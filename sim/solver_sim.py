"""solver_sim: load-stepping histories against the real trust-region solver stack.

Serves C01 (descent / returns-last / finiteness / flag honesty / convex clause / liveness),
C06 (in-situ sub-problem monitors) and C19 (warm start, scaling transparency, hand-over).

Real: optimism.Objective (Objective, ScaledObjective, PrecondStrategy), EquationSolver,
WarmStart, SparseCholesky.  Stub: sksparse.cholmod (dense Cholesky + fault plan).
"""
import numpy as np

from sim import core, families, seams

_cache = {}


def lib():
    if 'lib' not in _cache:
        import optimism  # noqa: F401  (enables x64)
        import jax
        import jax.numpy as jnp
        from optimism import EquationSolver as ES, Objective as OBJ, WarmStart as WS
        from optimism import SparseCholesky as SC
        from optimism import EquationSolverSubspace as ESS
        from optimism.treigen import treigen as TRE
        from scipy.sparse import csc_matrix
        f = families.jax_objective()
        hess = jax.jit(jax.hessian(f, 0))
        _cache['lib'] = dict(jax=jax, jnp=jnp, ES=ES, OBJ=OBJ, WS=WS, SC=SC, ESS=ESS, TRE=TRE, f=f, hess=hess,
                             csc=csc_matrix, objs={})
    return _cache['lib']


# ----------------------------------------------------------------------------
# program generation
# ----------------------------------------------------------------------------

DIMS = [1, 2, 3, 5, 8, 13, 20, 40]
DIM_W = [0.08, 0.17, 0.2, 0.2, 0.15, 0.1, 0.06, 0.04]


def initial_point_and_params(cfg):
    """start point and parameter slots of a run: a pure function of the config"""
    n = int(cfg['n'])
    rng = np.random.Generator(np.random.PCG64(int(cfg['x0seed'])))
    x0 = rng.normal(size=n) * float(cfg['x0scale'])
    pnp = [rng.normal(size=families.M) * 0.3, rng.normal(size=families.M) * 0.3,
           rng.normal(size=families.M) * 0.3, None, float(rng.normal() * 0.3), None]
    return x0, pnp


def find_hump_instance(rng, cfg):
    """Generator-side construction (numpy only) of a 2-dof cubic energy and a start x0 such that, with
    the default radius rules (radius 2, shrink factor 1/4): (1) the full Newton step from x0 is accepted
    and lands at the origin, where the Hessian H is indefinite; (2) there the direction -P g (P = inverse
    of the Hessian at x0: the stale preconditioner) has negative curvature and the step to the boundary
    along it is uphill for the true objective (rejected); (3) the dogleg point between the gradient Cauchy
    point and that boundary point at the reduced radius has a POSITIVE model value and is uphill too.
    This is the alignment under which the solver's re-signing of the reduction ratio for an increasing
    model decides acceptance.  Triples (g, H, H0) are found by vectorised rejection sampling; the cubic
    coefficients follow from  H(x0) = H0  and the Newton condition  s = 2 (H - H0)^-1 g."""
    D, t1 = 2.0, 0.25
    N = 20000
    for _ in range(6):
        th = rng.uniform(0, np.pi, N)
        l1, l2 = 10 ** rng.uniform(0.5, 2, N), -10 ** rng.uniform(0.5, 2, N)
        c_, s_ = np.cos(th), np.sin(th)
        H = np.empty((N, 2, 2))
        H[:, 0, 0], H[:, 1, 1] = l1 * c_ * c_ + l2 * s_ * s_, l1 * s_ * s_ + l2 * c_ * c_
        H[:, 0, 1] = H[:, 1, 0] = (l1 - l2) * c_ * s_
        th0 = rng.uniform(0, np.pi, N)
        m1 = 10 ** rng.uniform(0, 2, N)
        m2 = m1 * 10 ** rng.uniform(0, 2, N)
        c0, s0 = np.cos(th0), np.sin(th0)
        H0 = np.empty((N, 2, 2))
        H0[:, 0, 0], H0[:, 1, 1] = m1 * c0 * c0 + m2 * s0 * s0, m1 * s0 * s0 + m2 * c0 * c0
        H0[:, 0, 1] = H0[:, 1, 0] = (m1 - m2) * c0 * s0
        g = rng.normal(size=(N, 2)) * 10 ** rng.uniform(-0.5, 1, N)[:, None]
        gHg = np.einsum('ni,nij,nj->n', g, H, g)
        ok = gHg > 0
        cp = -(np.einsum('ni,ni->n', g, g) / np.where(ok, gHg, 1.0))[:, None] * g
        ok &= np.linalg.norm(cp, axis=1) < t1 * D
        d = -np.linalg.solve(H0, g[:, :, None])[:, :, 0]
        ok &= np.einsum('ni,nij,nj->n', d, H, d) < 0
        qn = D * d / np.linalg.norm(d, axis=1)[:, None]
        e = qn - cp
        a_, b_ = np.einsum('ni,ni->n', e, e), 2 * np.einsum('ni,ni->n', cp, e)
        c2 = np.einsum('ni,ni->n', cp, cp) - (t1 * D) ** 2
        tau = (-b_ + np.sqrt(np.maximum(b_ * b_ - 4 * a_ * c2, 0))) / (2 * a_)
        dl = cp + tau[:, None] * e
        m = np.einsum('ni,ni->n', g, dl) + 0.5 * np.einsum('ni,nij,nj->n', dl, H, dl)
        ok &= m > 0
        with np.errstate(all='ignore'):
            sN = 2 * np.linalg.solve(H - H0, g[:, :, None])[:, :, 0]
        ok &= np.all(np.isfinite(sN), axis=1) & (np.linalg.norm(sN, axis=1) < D)
        for i in np.flatnonzero(ok):
            s = sN[i]
            T = rng.normal(size=(families.K3, 2))
            T /= np.linalg.norm(T, axis=1)[:, None]
            Mx = np.array([(T[k] @ s) * np.array([T[k, 0] ** 2, T[k, 0] * T[k, 1], T[k, 1] ** 2]) for k in range(families.K3)]).T
            rhs = (H[i] - H0[i])[[0, 0, 1], [0, 1, 1]]
            try:
                c3 = np.linalg.solve(Mx, rhs)
            except np.linalg.LinAlgError:
                continue
            if not np.all(np.isfinite(c3)) or np.max(np.abs(c3)) > 1e4 * np.max(np.abs(H[i])):
                continue
            ex = {'H': H[i].tolist(), 'g': g[i].tolist(), 'c3': c3.tolist(), 'T': T.tolist()}
            c = dict(cfg, n=2, explicit=ex)
            ev = families.Evaluator(families.make_coefs(c))
            _, pnp = initial_point_and_params(c)
            x0 = -s
            f0, f1 = ev.value(x0, pnp), ev.value(np.zeros(2), pnp)
            H0c, g0 = ev.hess(x0, pnp), ev.grad(x0, pnp)
            if np.max(np.abs(H0c - H0[i])) > 1e-8 * np.max(np.abs(H0[i])):
                continue
            mN = g0 @ s + 0.5 * s @ H0c @ s
            if not (mN < 0 and (f0 - f1) >= 0.2 * (-mN)):
                continue
            if ev.value(qn[i], pnp) > f1 and ev.value(dl[i], pnp) > f1 + 1e-6 * (abs(f0) + abs(f1)):
                return ex, x0.tolist()
    return None


def gen_settings(rng, mode):
    """mode: 'default' | 'swarm' | 'caps'"""
    if mode == 'default':
        return {}
    s = {}
    if rng.random() < 0.7:
        eta1 = float(10.0 ** rng.uniform(-12, -0.8))
        eta2 = float(eta1 + (0.6 - eta1) * rng.uniform(0.05, 0.9))
        eta3 = float(eta2 + (0.95 - eta2) * rng.uniform(0.05, 0.95))
        s.update(eta1=eta1, eta2=eta2, eta3=eta3)
    if rng.random() < 0.6:
        s.update(t1=float(rng.uniform(0.05, 0.9)), t2=float(rng.uniform(1.1, 4.0)))
    if rng.random() < 0.7:
        s['tr_size'] = float(10.0 ** rng.uniform(-3, 3))
    if rng.random() < 0.4:
        s['min_tr_size'] = float(rng.choice([1e-12, 1e-8, 1e-5]))
    if rng.random() < 0.6:
        s['tol'] = float(10.0 ** rng.uniform(-10, -4))
    if rng.random() < 0.35:
        s['use_preconditioned_inner_product_for_cg'] = True
    if rng.random() < 0.12:
        s['use_incremental_objective'] = True
    if rng.random() < 0.2:
        s['cg_inexact_solve_ratio'] = float(10.0 ** rng.uniform(-8, -1))
    if mode == 'caps' or rng.random() < 0.25:
        which = rng.random()
        if which < 0.35:
            s['max_trust_iters'] = int(rng.choice([1, 2, 3, 5]))
        elif which < 0.6:
            s['max_cg_iters'] = int(rng.choice([1, 2, 4]))
        elif which < 0.8:
            s['max_cumulative_cg_iters'] = int(rng.choice([1, 3, 8]))
        else:
            tr = s.get('tr_size', 2.0)
            s['min_tr_size'] = float(tr * rng.choice([0.5, 0.2, 0.05]))
    return s


def gen_config(rng, prop, fault_mode):
    n = int(rng.choice(DIMS, p=DIM_W))
    r = rng.random()
    if prop == 'C19':
        fam = 'Q+' if r < 0.45 else 'Qc'
    elif prop == 'C06':
        fam = 'Qi' if r < 0.5 else ('S' if r < 0.7 else ('Qc' if r < 0.9 else 'Q+'))
    else:
        fam = 'Qc' if r < 0.35 else ('Qi' if r < 0.55 else ('Q+' if r < 0.62 else ('S' if r < 0.7 else ('L' if r < 0.8 else 'P'))))
    if fam == 'L':
        n = 1
    cond = float(10.0 ** rng.uniform(0, 3)) if (fam == 'Qc' and rng.random() < 0.6) or prop == 'C19' \
        else float(10.0 ** rng.uniform(0, 8))
    cfg = {'family': fam, 'n': n, 'cond': cond, 'cseed': int(rng.integers(0, 2**31)),
           'sigscale': float(10.0 ** rng.uniform(-2, 2)) if rng.random() < 0.3 else 1.0,
           'nneg': int(rng.integers(0, max(2, n // 2 + 1))) if fam in ('Qi', 'S', 'L') else 0,
           'nzero': int(rng.integers(0, 2)) if fam in ('Qi', 'S') and n > 1 else 0,
           'repeat': bool(rng.random() < 0.2),
           'qscale': float(10.0 ** rng.uniform(-3, 0)), 'ascale': float(10.0 ** rng.uniform(-1, 1)),
           'wscale': float(10.0 ** rng.uniform(-0.5, 0.5)),
           'nonlinear_p': bool(rng.random() < 0.3 and fam != 'Q+'),
           'precond': str(rng.choice(['hess', 'none', 'diag', 'poor'], p=[0.5, 0.2, 0.15, 0.15])),
           'x0scale': float(10.0 ** rng.uniform(-1, 1.3)),
           'x0seed': int(rng.integers(0, 2**31))}
    if fam in ('Qi', 'S', 'L') and cfg['nneg'] > 0:
        cfg['qscale'] = max(cfg['qscale'], 1e-2)     # quartic keeps the objective bounded below
    if fam == 'S' and rng.random() < 0.6:
        # exactly quadratic: the gradient at the symmetric start is an eigenvector of the Hessian to
        # rounding, which is what the degenerate "hard case" of the exact sub-problem solver needs
        cfg.update(quartic=False, nneg=max(1, cfg['nneg']), precond=str(rng.choice(['poor', 'diag'])),
                   cond=float(10.0 ** rng.uniform(0, 2)))
    if fam == 'P':
        # polynomial snap-through energies: cubic coupling + radial quartic/sextic; start in a convex
        # region whose Newton step lands where the Hessian is indefinite (stale preconditioner there)
        cfg.update(n=int(rng.choice([2, 2, 3, 5])), cond=float(10.0 ** rng.uniform(0, 1.5)), sigscale=float(10.0 ** rng.uniform(0, 1.5)),
                   nneg=1, nzero=0, quartic=False, cos=False, nonlinear_p=False, precond=str(rng.choice(['hess', 'none'])),
                   c3scale=float(10.0 ** rng.uniform(0, 1)), bscale=float(10.0 ** rng.uniform(-1, 0.7)))
        cfg['nneg'] = int(rng.integers(1, cfg['n']))
    if fam == 'L':
        cfg.update(nneg=0, quartic=False, cond=1.0, sigscale=float(10.0 ** rng.uniform(-1.5, 0)),
                   ascale=float(10.0 ** rng.uniform(-0.3, 0.7)), wscale=1.0, nonlinear_p=False)
    if fault_mode and rng.random() < 0.3:
        a = rng.normal(size=cfg['n'])
        a /= np.linalg.norm(a)
        cfg['barrier'] = {'a': a.tolist(), 'c': float(abs(rng.normal()) * 2 + 0.5)}
    return cfg


def gen_program(rng, prop, tier, run_index):
    fault_mode = bool(rng.random() < 0.5)
    convex_clause = (not fault_mode) and prop == 'C01' and rng.random() < 0.35
    cfg = gen_config(rng, prop, fault_mode)
    if convex_clause:
        cfg.update(family='Qc', cond=float(10.0 ** rng.uniform(0, 3)), sigscale=1.0, barrier=None,
                   nneg=0, nzero=0, x0scale=float(10.0 ** rng.uniform(-1, 1.2)))
        cfg.pop('barrier')
    cfg['fault_mode'] = fault_mode
    cfg['scaled_replica'] = bool(prop == 'C19' and cfg['family'] in ('Qc', 'Q+') and rng.random() < 0.6)
    if cfg['scaled_replica']:
        cfg['precond'] = 'hess'
        cfg.pop('barrier', None)
    nops = int(rng.integers(1, 9 if prop != 'C19' else 7))
    ops = []
    smode = 'default' if convex_clause else 'swarm'
    base_settings = gen_settings(rng, smode)
    for k in range(nops):
        r = rng.random()
        if r < 0.72 or k == 0:
            op = {'op': 'solve', 'driver': 'nes' if rng.random() < 0.8 or prop == 'C19' else 'trm',
                  'warm': bool(rng.random() < 0.6), 'upd': bool(rng.random() < 0.8 or k == 0),
                  'dp': gen_dp(rng, k == 0 and rng.random() < 0.3)}
            if convex_clause:
                op['settings'] = {}
                op['upd'] = True
            elif rng.random() < 0.5:
                op['settings'] = base_settings
            else:
                op['settings'] = gen_settings(rng, 'caps' if fault_mode and rng.random() < 0.5 else 'swarm')
            if fault_mode:
                if rng.random() < 0.5:
                    op['chol'] = gen_chol(rng)
                if op['warm'] and rng.random() < 0.2:
                    op['cgmax'] = int(rng.integers(1, 4))
            ops.append(op)
        elif r < 0.8 and prop == 'C06' and rng.random() < 0.7:
            ops.append({'op': 'subspace', 'settings': gen_settings(rng, 'swarm'),
                        **({'chol': gen_chol(rng)} if fault_mode and rng.random() < 0.5 else {})})
        elif r < 0.8:
            op = {'op': 'refresh', 'where': str(rng.choice(['here', 'elsewhere'])), 'pseed': int(rng.integers(0, 2**31))}
            if fault_mode and rng.random() < 0.5:
                op['chol'] = gen_chol(rng)[:1]
            ops.append(op)
        elif r < 0.9:
            ops.append({'op': 'warm_only', 'slot': int(rng.choice([0, 2])), 'dp': gen_dp(rng, False, force=True),
                        **({'cgmax': int(rng.integers(1, 4))} if fault_mode and rng.random() < 0.2 else {})})
        else:
            ops.append({'op': 'restart', 'fresh': bool(rng.random() < 0.15)})
    if cfg['family'] == 'S' and prop == 'C06' and rng.random() < 0.7:
        ops[0] = {'op': 'subspace', 'settings': {'tr_size': float(10.0 ** rng.uniform(-1, 1)),
                                                 'max_trust_iters': int(rng.integers(1, 6))}}
    if cfg['family'] == 'P' and not cfg.get('barrier') and rng.random() < 0.7:
        found = find_hump_instance(rng, cfg)
        if found:
            cfg.update(n=2, nneg=1, nonlinear_p=False, scaled_replica=False)
            cfg['explicit'], cfg['x0'] = found
            cfg['precond'] = str(rng.choice(['hess', 'none']))
            ops[0] = {'op': 'solve', 'driver': 'nes', 'warm': False, 'upd': True, 'dp': {},
                      'settings': {} if rng.random() < 0.6 else {'max_trust_iters': int(rng.integers(2, 6))}}
    elif cfg['family'] == 'P':
        st = {} if rng.random() < 0.5 else {'tr_size': float(rng.choice([0.5, 1.0, 2.5, 5.0]))}
        if rng.random() < 0.3:
            st['max_trust_iters'] = int(rng.integers(2, 8))
        ops[0] = {'op': 'solve', 'driver': 'nes', 'warm': False, 'upd': True, 'dp': {}, 'settings': st}
    if cfg['family'] == 'L':
        ops[0] = {'op': 'solve', 'driver': 'trm', 'warm': False, 'upd': True, 'dp': {},
                  'settings': {'tr_size': 1e3, 'tol': float(10.0 ** rng.uniform(-8, -5))}}
    if fault_mode and prop == 'C01' and cfg['family'] == 'Qc' and cfg['cond'] <= 1e3 and not cfg.get('barrier'):
        ops.append({'op': 'solve', 'driver': 'nes', 'warm': False, 'upd': True, 'dp': {}, 'settings': {},
                    'liveness': True})
    if prop == 'C19' and rng.random() < 0.3:
        # design-study histories (seeded change C19-4): a design-slot warm start after every load step, so that
        # the design-slot Jacobian-vector product is used repeatedly while the other slots move in between
        out = []
        for op in ops:
            out.append(op)
            if op['op'] == 'solve' and len(out) < 12:
                out.append({'op': 'warm_only', 'slot': 2, 'dp': gen_dp(rng, False, force=True)})
        ops = out
    return {'engine': 'solver_sim', 'config': cfg, 'ops': ops}


def gen_dp(rng, none, force=False):
    if none and not force:
        return {}
    dp = {}
    # parameter increments over many decades: ordinary load steps, and the tiny ones of fine / adaptive stepping
    scale = float(10.0 ** (rng.uniform(-3, 0.5) if rng.random() < 0.75 else rng.uniform(-10, -3)))
    for slot in ('0', '2', '1', '4'):
        pr = {'0': 0.7, '2': 0.4, '1': 0.15, '4': 0.15}[slot]
        if rng.random() < pr or (force and slot in ('0', '2')):
            dp[slot] = float(rng.normal() * scale) if slot == '4' else (rng.normal(size=families.M) * scale).tolist()
    return dp


def gen_chol(rng):
    masks = []
    for _ in range(int(rng.integers(1, 4))):
        r = rng.random()
        if r < 0.45:
            masks.append(1)                       # first attempt fails -> shifted factor
        elif r < 0.7:
            masks.append(int(rng.integers(1, 64)))
        elif r < 0.85:
            masks.append(1023)                    # all ten fail -> identity
        else:
            masks.append(0)
    return masks


def repair(program):
    ops = program['ops']
    if not ops:
        return None
    return program


def simplify(program):
    cfg = program['config']
    for n in (1, 2, 3, 5, 8):
        if n < cfg['n'] and not cfg.get('barrier'):
            yield dict(program, config=dict(cfg, n=n))
    for key, val in (('nonlinear_p', False), ('repeat', False), ('sigscale', 1.0), ('precond', 'hess'),
                     ('scaled_replica', False), ('nzero', 0)):
        if cfg.get(key) != val:
            yield dict(program, config=dict(cfg, **{key: val}))
    if cfg.get('cond', 1) > 10:
        yield dict(program, config=dict(cfg, cond=10.0))
    for i, op in enumerate(program['ops']):
        for key in ('chol', 'cgmax'):
            if key in op:
                o = dict(op)
                o.pop(key)
                yield _with_op(program, i, o)
        if op.get('settings'):
            yield _with_op(program, i, dict(op, settings={}))
            for k in list(op['settings']):
                s = dict(op['settings'])
                s.pop(k)
                yield _with_op(program, i, dict(op, settings=s))
        if op.get('dp'):
            for k in list(op['dp']):
                d = dict(op['dp'])
                d.pop(k)
                yield _with_op(program, i, dict(op, dp=d))
        if op.get('warm'):
            yield _with_op(program, i, dict(op, warm=False))


def _with_op(program, i, op):
    ops = list(program['ops'])
    ops[i] = op
    return dict(program, ops=ops)


# ----------------------------------------------------------------------------
# the simulated application
# ----------------------------------------------------------------------------

def tr_reference(H, g, D):
    """Global minimiser of g.s + 1/2 s'Hs over |s| <= D (More-Sorensen on the eigen-decomposition,
    bisection on the secular equation, explicit hard case).  Returns (s, is_hard_case)."""
    w, V = np.linalg.eigh(H)
    gt = V.T @ g
    n = g.size
    if w[0] > 0:
        p = -gt / w
        if np.linalg.norm(p) <= D:
            return V @ p, False
    lam_lo = max(0.0, -w[0])
    scale = max(np.max(np.abs(w)), np.linalg.norm(g) / D, 1e-300)
    low = np.abs(w - w[0]) <= 1e-12 * scale          # lowest eigenspace
    if lam_lo > 0 or w[0] <= 0:
        g_low = np.linalg.norm(gt[low])
        if g_low <= 1e-12 * (np.linalg.norm(g) + 1e-300):
            # potential hard case: solve without the lowest eigenspace at lam = -w0
            rest = ~low
            p = np.zeros(n)
            p[rest] = -gt[rest] / (w[rest] + lam_lo)
            if np.linalg.norm(p) <= D:
                tau = np.sqrt(max(D * D - p @ p, 0.0))
                p[np.flatnonzero(low)[0]] = tau
                return V @ p, True
    phi = lambda lam: np.linalg.norm(gt / (w + lam))
    lo = lam_lo
    hi = lam_lo + np.linalg.norm(g) / D + scale
    while phi(hi) > D:
        hi = lam_lo + 2 * (hi - lam_lo)
    for _ in range(300):
        mid = 0.5 * (lo + hi)
        if mid == lo or mid == hi:
            break
        with np.errstate(divide='ignore', invalid='ignore'):
            v = phi(mid)
        if not np.isfinite(v) or v > D:
            lo = mid
        else:
            hi = mid
    with np.errstate(divide='ignore', invalid='ignore'):
        p = -gt / (w + hi)
    return V @ p, False


class App:
    def __init__(self, program, ctx):
        L = lib()
        self.L, self.ctx = L, ctx
        self.cfg = cfg = program['config']
        self.n = n = int(cfg['n'])
        jnp = L['jnp']
        self.coefs = families.make_coefs(cfg)
        self.ev = families.Evaluator(self.coefs)
        self.jc = families.to_jax_coefs(self.coefs)
        x0, self.pnp = initial_point_and_params(cfg)
        rng = np.random.Generator(np.random.PCG64(int(cfg['x0seed']) + 11))
        if cfg['family'] == 'S':
            x0 = self.symmetric_start(x0)
        if cfg['family'] == 'L':
            x0 = self.landing_start(x0)
        if cfg['family'] == 'P':
            x0 = np.asarray(cfg['x0'], dtype=float) if cfg.get('x0') else self.snap_start(x0)
        if cfg.get('barrier'):
            a, c = np.asarray(cfg['barrier']['a']), cfg['barrier']['c']
            if a @ x0 > c - 0.25:     # move the start to the finite side with margin
                x0 = x0 - (a @ x0 - c + 0.5) * a
        self.x = x0
        self.plan = seams.chol_plan(ctx)
        ES, WS = L['ES'], L['WS']
        self.cgseam = seams.KrylovSeam(WS.cg, ctx, 'ws_cg')
        seams.patch(WS, 'cg', self.cgseam)
        self.monitor = seams.SubproblemMonitor(ES, ctx, self.current_M)
        self.monitor.install()
        self.install_treigen_monitor()
        self.trials = 0
        self.trial_bound = None
        real_banner = ES.print_min_banner

        def banner(realO, modelO, res, modelRes, cgIters, trSize, stepType, willAccept, settings):
            # observation seam: one call per trial step of the trust-region loop
            self.trials += 1
            try:
                if float(modelO) > 0:
                    ctx.probe('tr:model_increase')
                    if willAccept:
                        ctx.probe('tr:model_increase_accepted')
                if not np.isfinite(float(realO)):
                    ctx.probe('tr:nan_trial')
                ctx.probe('tr:accepted' if willAccept else 'tr:rejected')
            except Exception:
                pass
            if self.trial_bound is not None and self.trials > self.trial_bound:
                ctx.violate('C01', 'returns/terminates',
                            'trust-region loop made %d trial steps; its own shrink/grow rules bound them by %d'
                            % (self.trials, self.trial_bound), sig={'barrier': bool(self.cfg.get('barrier'))})
            return real_banner(realO, modelO, res, modelRes, cgIters, trSize, stepType, willAccept, settings)
        seams.patch(ES, 'print_min_banner', banner)
        self.obj = None
        self.scaled = None
        self.make_objective(fresh=False)
        if cfg.get('scaled_replica'):
            self.make_scaled()

    # -- C06: exact eigenvalue-based sub-problem solver, audited in situ ---------------
    def install_treigen_monitor(self):
        TRE, ctx = self.L['TRE'], self.ctx
        real = TRE.solve
        real_q = TRE.qnorm_squared
        count = [0]

        class SecularIterationCap(Exception):
            pass

        def qnorm_squared(bvv, sig):
            # called once per iteration of the (uncapped) secular-equation loop: a deterministic step counter
            count[0] += 1
            if count[0] > 5000:
                raise SecularIterationCap()
            return real_q(bvv, sig)
        seams.patch(TRE, 'qnorm_squared', qnorm_squared)

        def solve(A, b, Delta):
            count[0] = 0
            try:
                out = real(A, b, Delta)
            except SecularIterationCap:
                Hh, gg = np.asarray(A, dtype=float), np.asarray(b, dtype=float)
                w = np.linalg.eigvalsh(0.5 * (Hh + Hh.T))
                ctx.violate('C06', 'treigen/terminates',
                            'exact sub-problem solver did not return: > 5000 secular-equation iterations (dimension %d, eigenvalues %s, |g| %.6g, radius %.6g)'
                            % (gg.size, np.array2string(w, precision=6), np.linalg.norm(gg), float(Delta)),
                            sig={'dim': int(gg.size)}, data={'H': Hh, 'g': gg, 'Delta': float(Delta)})
                raise core.RunAbort('treigen did not terminate')
            H, g, s = np.asarray(A, dtype=float), np.asarray(b, dtype=float), np.asarray(out, dtype=float)
            D = float(Delta)
            if not (np.all(np.isfinite(H)) and np.all(np.isfinite(g)) and np.isfinite(D) and D > 0):
                ctx.skip('C06.treigen/nonfinite_input')
                return out
            H = 0.5 * (H + H.T)
            ref, hard = tr_reference(H, g, D)
            ctx.probe('treigen:' + ('hard_case' if hard else ('interior' if np.linalg.norm(ref) < D * (1 - 1e-9) else 'boundary')))
            if not np.all(np.isfinite(s)):
                ctx.violate('C06', 'treigen/finite', 'exact sub-problem solver returned a non-finite step', sig={'hard': hard})
                return out
            m = lambda z: float(g @ z + 0.5 * z @ (H @ z))
            scale = abs(m(ref)) + np.linalg.norm(g) * D + 0.5 * np.linalg.norm(H, 2) * D * D + 1e-300
            # boundary accuracy: the solver asks for 1e-9 relative, but cannot do better than the resolution of
            # the multiplier: |d|p|/d lam| * ulp(lam).  Derived from the oracle's own decomposition.
            wv, Vv = np.linalg.eigh(H)
            gt = Vv.T @ g
            lam_s = float(max(0.0, -(s @ (H @ s) + g @ s) / max(s @ s, 1e-300)))      # Rayleigh estimate of the multiplier at s
            with np.errstate(divide='ignore', invalid='ignore'):
                den = np.abs(wv + lam_s)
                sens = float(np.sum(gt * gt / np.maximum(den, 1e-300) ** 3) / max(np.linalg.norm(s), 1e-300))
            res_lim = 64 * np.spacing(max(lam_s, np.max(np.abs(wv)))) * sens / D
            inside_tol = 1e-7 + (res_lim if np.isfinite(res_lim) else 0.0)
            if inside_tol > 1e-2:
                ctx.skip('C06.treigen/inside_uninformative')
            ctx.require(inside_tol > 1e-2 or np.linalg.norm(s) <= D * (1 + inside_tol), 'C06', 'treigen/inside',
                        lambda: 'exact sub-problem step has norm %.12g > radius %.12g' % (np.linalg.norm(s), D), sig={'hard': hard})
            ctx.require(m(s) <= m(ref) + 1e-6 * scale, 'C06', 'treigen/global_minimiser',
                        lambda: 'model value %.12g at the returned step, global minimum over the ball is %.12g (dimension %d, %s)'
                        % (m(s), m(ref), g.size, 'hard case' if hard else 'regular case'), sig={'hard': hard})
            return out
        seams.patch(TRE, 'solve', solve)

    def subspace(self, op):
        ctx, L = self.ctx, self.L
        jnp, ESS = L['jnp'], L['ESS']
        st = self.settings(op.get('settings') or {})
        self.obj.p = self.P()
        self.plan.masks = list(op.get('chol', []))
        self.active = self.obj
        trace = []
        try:
            with core.quiet_stdout():
                self.obj.update_precond(jnp.asarray(self.x))
                xr = ESS.trust_region_subspace_minimize(self.obj, jnp.asarray(self.x), st,
                                                        callback=lambda xk, o: trace.append(np.array(xk, dtype=float)))
        except (core.RunTimeout, core.Violation):
            raise
        except Exception as e:
            ctx.probe('subspace:raised_' + type(e).__name__)
            return
        finally:
            self.plan.masks = []
        self.have_precond = True
        xr = np.array(xr, dtype=float)
        ctx.log.add('subspace_return', x=xr, iters=len(trace))
        if core.finite(xr) and not self.ev.in_barrier(xr):
            self.x = xr
        if trace:
            ctx.nontrivial = True
        ctx.label('subspace')

    # -- parameters -------------------------------------------------------------
    def P(self, pnp=None):
        pnp = self.pnp if pnp is None else pnp
        jnp = self.L['jnp']
        return self.L['OBJ'].Params(jnp.asarray(pnp[0]), jnp.asarray(pnp[1]), jnp.asarray(pnp[2]),
                                    self.jc, jnp.asarray(pnp[4], dtype=jnp.float64), None)

    # -- special starts -----------------------------------------------------------
    def symmetric_start(self, x0):
        """x0 such that grad f(x0) is an eigenvector direction of A: x0 = A^-1 (lin + t v)
        for quadratic part only (exact when the extra terms vanish at that point, else close)."""
        c = self.coefs
        sig, Q = c['_sig'], c['_Q']
        j = int(np.argmax(sig))
        nz = np.abs(sig) > 1e-12
        lin = self.ev.lin(self.pnp)
        y = np.zeros(self.n)
        y[nz] = (Q.T @ lin)[nz] / sig[nz]
        x = Q @ y + 0.7 * Q[:, j] * np.sign(x0[0] + 1e-300)
        return x

    def snap_start(self, x0):
        """A start where the Hessian is positive definite and whose full Newton step lands where it is
        indefinite: the solver then works in the indefinite region with the preconditioner factorised
        at the start."""
        ev, p = self.ev, self.pnp
        rs = np.random.Generator(np.random.PCG64(int(self.cfg['x0seed']) + 3))
        for _ in range(400):
            x = rs.normal(size=self.n)
            x *= rs.uniform(0.2, 2.0) / np.linalg.norm(x)
            H = ev.hess(x, p)
            w = np.linalg.eigvalsh(H)
            if w[0] <= 1e-3 * w[-1]:
                continue
            xn = x - np.linalg.solve(H, ev.grad(x, p))
            if np.linalg.norm(xn - x) > 3.0:
                continue
            if np.linalg.eigvalsh(ev.hess(xn, p))[0] < -1e-3 * w[-1]:
                self.ctx.probe('P:snap_start_built')
                return x
        return x0

    def landing_start(self, x0):
        """n = 1.  Find a start in a convex region (f'' > 0) whose full Newton step lands, to
        machine precision, on a strict local maximiser xs (f'(xs) = 0, f''(xs) < 0): the
        alignment that makes the solver's convergence test fire at an uphill trial point."""
        ev, p = self.ev, self.pnp
        if self.n != 1:
            return x0
        g = lambda t: float(ev.grad(np.array([t]), p)[0])
        h = lambda t: float(ev.hess(np.array([t]), p)[0, 0])
        grid = np.linspace(-8.0, 8.0, 3201)
        gv = np.array([g(t) for t in grid])
        hv = np.array([h(t) for t in grid])
        maxima = []
        for i in range(len(grid) - 1):
            if gv[i] > 0 >= gv[i + 1] and hv[i] < 0 and hv[i + 1] < 0:
                a, b = grid[i], grid[i + 1]
                for _ in range(200):
                    m = 0.5 * (a + b)
                    if g(m) > 0:
                        a = m
                    else:
                        b = m
                xs = 0.5 * (a + b)
                if h(xs) < -1e-3:
                    maxima.append(xs)
        if not maxima:
            return x0
        rs = np.random.Generator(np.random.PCG64(int(self.cfg['x0seed']) + 1))
        cands = []
        for xs in maxima:
            N = lambda t: t - g(t) / h(t) - xs
            for i in range(len(grid) - 1):
                if hv[i] > 1e-3 and hv[i + 1] > 1e-3:
                    fa, fb = N(grid[i]), N(grid[i + 1])
                    if np.isfinite(fa) and np.isfinite(fb) and fa * fb < 0:
                        a, b = grid[i], grid[i + 1]
                        for _ in range(200):
                            m = 0.5 * (a + b)
                            if N(m) * fa > 0:
                                a = m
                            else:
                                b = m
                        t = 0.5 * (a + b)
                        if h(t) > 1e-3 and abs(N(t)) < 1e-9:
                            cands.append(t)
        if not cands:
            return x0
        self.ctx.probe('L:landing_start_built')
        return np.array([cands[int(rs.integers(0, len(cands)))]])

    # -- objects --------------------------------------------------------------------
    def strategy(self):
        L = self.L
        kind = self.cfg['precond']
        hess, csc = L['hess'], L['csc']
        if kind == 'none':
            return None
        if kind == 'hess':
            return L['OBJ'].PrecondStrategy(lambda x, p: csc(np.asarray(hess(x, p))))
        if kind == 'diag':
            return L['OBJ'].PrecondStrategy(
                lambda x, p: csc(np.diag(np.abs(np.diag(np.asarray(hess(x, p)))) + 1e-3)))
        rs = np.random.Generator(np.random.PCG64(int(self.cfg['cseed']) + 7))
        G = rs.normal(size=(self.n, self.n))
        E = G @ G.T / self.n

        def poor(x, p):
            Hn = np.asarray(hess(x, p))
            return csc(Hn + 0.5 * np.linalg.norm(Hn) * E)
        return L['OBJ'].PrecondStrategy(poor)

    def make_objective(self, fresh):
        L = self.L
        jnp = L['jnp']
        key = self.n
        if fresh or key not in L['objs']:
            with core.quiet_stdout():
                L['objs'][key] = L['OBJ'].Objective(L['f'], jnp.asarray(self.x), self.P(), None)
            self.ctx.probe('objective_constructed')
        obj = L['objs'][key]
        obj.p = self.P()
        obj.precond = L['SC'].SparseCholesky()
        obj.precondStrategy = self.strategy()
        obj.scaling, obj.invScaling = 1.0, 1.0
        self.obj = obj
        self.have_precond = False

    def make_scaled(self):
        L = self.L
        with core.quiet_stdout():
            self.scaled = L['OBJ'].ScaledObjective(L['f'], L['jnp'].asarray(self.x), self.P(), self.strategy())
            self.scaled.update_precond(self.scaled.scaling * L['jnp'].asarray(self.x))
        self.xs = np.array(self.x)

    def current_M(self, n):
        return seams.dense_op(self.active.multiply_by_approx_hessian, n)

    def settings(self, s):
        kw = dict(s)
        kw.setdefault('debug_info', False)
        return self.L['ES'].get_settings(**kw)

    # -- ops ---------------------------------------------------------------------------
    def new_params(self, dp):
        pnp = list(self.pnp)
        for slot, v in dp.items():
            k = int(slot)
            if k == 4:
                pnp[k] = self.pnp[k] + float(v)
            else:
                pnp[k] = self.pnp[k] + np.asarray(v, dtype=float)
        return pnp

    def refresh(self, op):
        ctx = self.ctx
        x = self.x
        if op.get('where') == 'elsewhere':
            r = np.random.Generator(np.random.PCG64(int(op['pseed'])))
            x = x + r.normal(size=self.n) * 0.3
            ctx.fault('stale_precond')
        self.plan.masks = list(op.get('chol', []))
        with core.quiet_stdout():
            self.obj.update_precond(self.L['jnp'].asarray(x))
        self.plan.masks = []
        self.have_precond = True
        ctx.label('refresh:' + self.plan.history[-1][2])

    def restart(self, op):
        self.ctx.fault('restart')
        self.make_objective(fresh=bool(op.get('fresh')))
        with core.quiet_stdout():
            self.obj.update_precond(self.L['jnp'].asarray(self.x))
        self.have_precond = True
        if self.scaled is not None:
            self.make_scaled()
        self.ctx.label('restart')

    def warm_only(self, op):
        ctx, L = self.ctx, self.L
        if not self.have_precond:
            self.refresh({})
        pnew = self.new_params({str(op['slot']): op['dp'].get(str(op['slot']), [0.1] * families.M)})
        self.cgseam.calls = []
        self.cgseam.force_maxiter = op.get('cgmax')
        self.active = self.obj
        try:
            with core.quiet_stdout():
                dx = L['WS'].warm_start_increment(self.obj, L['jnp'].asarray(self.x), self.P(pnew), index=int(op['slot']))
        finally:
            self.cgseam.force_maxiter = None
        self.audit_warm(self.x, self.pnp, pnew, int(op['slot']), np.asarray(dx, dtype=float), scale=None)
        ctx.label('warm_only:%d' % op['slot'])

    def audit_warm(self, x, pold, pnew, slot, dx, scale):
        """C19-1.  x: point (unscaled variable) the predictor is formed at."""
        ctx, ev = self.ctx, self.ev
        if not self.cgseam.calls:
            ctx.violate('C19', 'warm/solves', 'warm start did not go through the linear solver seam')
            return
        rec = self.cgseam.calls[-1]
        if ev.in_barrier(x):
            ctx.skip('C19.warm/barrier')
            return
        H = ev.hess(x, pold)
        if not (np.all(np.isfinite(H)) and np.all(np.isfinite(dx))):
            ctx.skip('C19.warm/nonfinite')
            return
        w = np.linalg.eigvalsh(H)
        if not w[0] > 1e-10 * max(1.0, w[-1]):
            ctx.skip('C19.warm/hessian_not_pd')
            return
        G = ev.dgrad_dp(x, pold, slot)
        b = G @ (np.asarray(pold[slot]) - np.asarray(pnew[slot]))
        if scale is not None:        # the solve was posed in xBar = scaling * x
            inv = 1.0 / scale
            H = (H * inv).T * inv
            b = b * inv
        if rec.get('truncated') is not None or rec['info'] != 0:
            ctx.skip('C19.warm/linear_solve_unconverged')
            return
        rtol = rec['kw'].get('rtol', rec['kw'].get('tol', 1e-5))
        atol = rec['kw'].get('atol', 0.0) or 0.0
        res = float(np.linalg.norm(H @ dx - b))
        bound = max(rtol * np.linalg.norm(b), atol) * (1 + 1e-6)
        # rounding: the library's b and H.v come from jax; compare with term magnitudes
        slack = 1e4 * core.EPS * (np.linalg.norm(np.abs(H) @ np.abs(dx)) + np.linalg.norm(np.abs(G) @ np.abs(np.asarray(pold[slot]) - np.asarray(pnew[slot]))) * (1 if scale is None else float(np.max(1.0 / scale))))
        ctx.require(res <= bound + slack, 'C19', 'warm/predictor',
                    lambda: 'warm-start increment leaves |H dx - dG dp| = %.6g, requested linear tolerance %.6g (|b|=%.6g)'
                    % (res, bound, np.linalg.norm(b)), sig={'slot': slot, 'scaled': scale is not None})
        fam = self.cfg['family']
        if fam == 'Q+' and slot in (0, 2) and scale is None:
            # quadratic in x, affine in p: the predictor lands on the new solution up to the linear tolerance
            pmix = list(pold)
            pmix[slot] = pnew[slot]
            g_old = ev.grad(x, pold)
            g_new = ev.grad(x + dx, pmix)
            sl = 1e4 * core.EPS * np.linalg.norm(ev.grad_mag(x + dx, pmix))
            ctx.require(np.linalg.norm(g_new - g_old) <= bound + slack + sl, 'C19', 'warm/lands',
                        lambda: 'quadratic energy: gradient changed by %.6g after the predictor (bound %.6g)'
                        % (np.linalg.norm(g_new - g_old), bound), sig={'slot': slot})

    def solve(self, op, i):
        ctx, L = self.ctx, self.L
        jnp, ES = L['jnp'], L['ES']
        st = self.settings(op.get('settings') or {})
        pold = list(self.pnp)
        pnew = self.new_params(op.get('dp') or {})
        Pnew = self.P(pnew)
        x_in = np.array(self.x)
        driver = op.get('driver', 'nes')
        warm = bool(op.get('warm'))
        upd = bool(op.get('upd')) or not self.have_precond
        if op.get('upd') is False and upd:
            ctx.probe('forced_first_refresh')
        self.plan.masks = list(op.get('chol', []))
        self.cgseam.calls = []
        self.cgseam.force_maxiter = op.get('cgmax') if warm else None
        if any(k.startswith('max_') for k in (op.get('settings') or {})):
            ctx.fault('cap')
        if op.get('upd') is False and self.have_precond:
            ctx.fault('stale_precond')
        trace = []
        starts = []

        def callback(xk, objective):
            xa = np.array(xk, dtype=float)
            trace.append(xa)
            ctx.log.add('iter', k=len(trace), x=xa)

        def algo(objective, xstart, settings, callback=None):
            starts.append(np.array(xstart, dtype=float))
            return ES.trust_region_minimize(objective, xstart, settings, callback=callback)

        self.active = self.obj
        self.monitor.enabled = True
        exc = None
        # bound on trial steps derived from the radius rules: consecutive rejections shrink the
        # radius by t1 each, acceptances grow it by at most t2, the loop stops below min_tr_size
        # (one retry after a preconditioner refresh)
        R = (np.log(max(st.tr_size / st.min_tr_size, 1.0)) + st.max_trust_iters * np.log(max(st.t2, 1.0))) \
            / np.log(1.0 / st.t1) + 3
        self.trials, self.trial_bound = 0, int(2 * (st.max_trust_iters + 1) * (R + 1)) + 10
        try:
            with core.quiet_stdout():
                if driver == 'nes':
                    xr, flag = ES.nonlinear_equation_solve(self.obj, jnp.asarray(x_in), Pnew, st,
                                                           solver_algorithm=algo, callback=callback,
                                                           useWarmStart=warm, updatePrecond=upd)
                else:
                    self.obj.p = Pnew
                    if upd:
                        self.obj.update_precond(jnp.asarray(x_in))
                    xr, flag = algo(self.obj, jnp.asarray(x_in), st, callback=callback)
        except (core.RunTimeout, core.Violation):
            raise
        except Exception as e:
            exc = e
        finally:
            self.plan.masks = []
            self.cgseam.force_maxiter = None
            self.trial_bound = None
        self.have_precond = True
        if exc is not None:
            ctx.violate('C01', 'completes', 'solver raised %r' % exc,
                        sig={'exc': type(exc).__name__, 'barrier': bool(self.cfg.get('barrier'))})
            return
        xr = np.array(xr, dtype=float)
        flag_is_bool = isinstance(flag, (bool, np.bool_)) or (hasattr(flag, 'dtype') and flag.dtype == bool)
        flag = bool(flag)
        ctx.log.add('solve_return', flag=flag, x=xr, iters=len(trace))
        ctx.sim_time += len(trace)
        if trace:
            ctx.nontrivial = True
        self.audit_solve(op, st, pold, pnew, x_in, starts, trace, xr, flag, warm, driver)
        # C19-3: hand-over
        same = all((a is b) for a, b in zip(self.obj.p, Pnew))
        ctx.require(same, 'C19', 'handover/objective_p',
                    'after the load step the objective does not carry the parameters that were passed',
                    sig={'driver': driver})
        if warm and driver == 'nes' and self.cgseam.calls:
            rec = self.cgseam.calls[0]
            self.audit_warm(x_in, pold, pnew, 0, rec['x'], scale=None)
        # commit: the caller carries x and p forward
        self.x, self.pnp = xr, pnew
        ctx.label('solve:%s:%s:%s' % (driver, 'T' if flag else 'F', self.plan.history[-1][2] if self.plan.history else '-'))
        if self.scaled is not None:
            self.solve_scaled(op, st, pold, pnew, flag, xr)

    def audit_solve(self, op, st, pold, pnew, x_in, starts, trace, xr, flag, warm, driver):
        ctx, ev = self.ctx, self.ev
        barrier = bool(self.cfg.get('barrier'))
        incremental = bool(st.use_incremental_objective)
        sig0 = {'driver': driver, 'incremental': incremental}
        # -- clause 2: returns the last reported iterate (or the start if none was reported)
        if not starts:
            ctx.violate('C01', 'returns_last', 'solver_algorithm was never invoked', sig=sig0)
            return
        last = trace[-1] if trace else starts[0]
        ctx.require(np.array_equal(xr, last, equal_nan=True), 'C01', 'returns_last',
                    lambda: 'returned point differs from the last reported iterate by %.3g (reported %d iterates)'
                    % (np.max(np.abs(xr - last)), len(trace)), sig=dict(sig0, reported=bool(trace)))
        # -- clause 3: finiteness
        seq = [starts[0]] + trace
        if barrier:
            ctx.skip('C01.finite/barrier_run')
        else:
            ctx.require(all(core.finite(v) for v in seq) and core.finite(xr), 'C01', 'finite',
                        'a reported iterate or the returned point is not finite', sig=sig0)
        # -- clause 1: descent along reported iterates
        if incremental:
            ctx.skip('C01.descent/incremental_mode')
        else:
            fprev, mprev = None, None
            for k, v in enumerate(seq):
                if not core.finite(v) or ev.in_barrier(v):
                    fprev = None
                    continue
                fv, mv = ev.value(v, pnew), ev.value_mag(v, pnew)
                if not (np.isfinite(fv) and np.isfinite(mv)):
                    ctx.skip('C01.descent/evaluator_overflow')
                    fprev = None
                    continue
                if fprev is not None:
                    rho = 1e3 * core.EPS * (mv + mprev)
                    final_success = bool(flag and k == len(seq) - 1)
                    ctx.require(fv <= fprev + rho, 'C01', 'descent',
                                lambda: 'objective rose from %.17g to %.17g (+%.3g, rounding bound %.3g) at reported iterate %d of %d'
                                % (fprev, fv, fv - fprev, rho, k, len(seq) - 1),
                                sig=dict(sig0, step='converged_at_trial_point' if final_success else 'accepted'),
                                data=lambda: {'rise': fv - fprev, 'rho': rho})
                fprev, mprev = fv, mv
        # -- clause 4: flag honesty under the requested parameters
        if flag:
            if ev.in_barrier(xr):
                ctx.violate('C01', 'flag', 'success reported at a point where the objective is NaN', sig=sig0)
            g = ev.grad(xr, pnew)
            gn = float(np.linalg.norm(g))
            rho_g = 1e3 * core.EPS * float(np.linalg.norm(ev.grad_mag(xr, pnew)))
            tol = float(st.tol)
            if rho_g < 0.1 * tol:
                ctx.probe('flag_audit_informative')
            else:
                ctx.probe('flag_audit_vacuous')
            ctx.require(gn < tol * (1 + 1e-6) + rho_g, 'C01', 'flag',
                        lambda: 'success reported but |grad f(x; requested p)| = %.6g >= tol %.6g (rounding bound %.3g)'
                        % (gn, tol, rho_g), sig=sig0)
            ctx.require(gn < tol * (1 + 1e-6) + rho_g, 'C19', 'handover/flag',
                        lambda: 'success flag does not refer to the new parameters: |grad| = %.6g, tol %.6g' % (gn, tol),
                        sig=sig0)
        # -- clause 5/6: convex problems with default settings
        c = self.cfg
        defaults = not (op.get('settings') or {})
        if defaults and c['family'] == 'Qc' and c['cond'] <= 1e3 and not barrier and \
                (not c['fault_mode'] or op.get('liveness')) and op.get('upd', True):
            xs, ok = ev.minimiser(pnew, x0=xr)
            if not ok or np.linalg.norm(x_in - xs) > 50:
                ctx.skip('C01.convex/premise')
            else:
                clause = 'liveness' if op.get('liveness') else 'convex'
                ctx.require(flag, 'C01', clause + '/success',
                            'well-conditioned strictly convex problem, default settings: solver reported failure',
                            sig=sig0)
                mu = ev.strong_convexity()
                bound = float(st.tol) / mu * (1 + 1e-3) + 1e-10 * (1 + np.linalg.norm(xs))
                ctx.require(np.linalg.norm(xr - xs) <= bound, 'C01', clause + '/minimiser',
                            lambda: 'returned point is %.6g from the unique minimiser (bound %.6g)'
                            % (np.linalg.norm(xr - xs), bound), sig=sig0)

    def solve_scaled(self, op, st, pold, pnew, flag_plain, x_plain):
        """C19-2: the scaled replica is driven by the same op; compare in lock step."""
        ctx, L = self.ctx, self.L
        jnp, ES = L['jnp'], L['ES']
        self.active = self.scaled
        self.monitor.enabled = False
        self.cgseam.calls = []
        try:
            with core.quiet_stdout():
                Pnew = self.P(pnew)
                xr, flag = ES.nonlinear_equation_solve(self.scaled, jnp.asarray(self.xs), Pnew, st,
                                                       useWarmStart=bool(op.get('warm')), updatePrecond=True)
        except (core.RunTimeout, core.Violation):
            raise
        except Exception as e:
            ctx.violate('C19', 'scaled/completes', 'scaled replica raised %r' % e)
            return
        finally:
            self.monitor.enabled = True
            self.active = self.obj
        xr = np.array(xr, dtype=float)
        scal = np.asarray(self.scaled.scaling, dtype=float) * np.ones(self.n)
        ctx.log.add('scaled_return', flag=bool(flag), x=xr)
        if bool(op.get('warm')) and self.cgseam.calls:
            self.audit_warm(self.xs, pold, pnew, 0, self.cgseam.calls[0]['x'], scale=scal)
        self.xs = xr
        ev, c = self.ev, self.cfg
        ctx.require(all((a is b) for a, b in zip(self.scaled.p, Pnew)), 'C19', 'handover/objective_p',
                    'after the load step the scaled objective does not carry the parameters that were passed',
                    sig={'driver': 'nes_scaled'})
        if flag and not c.get('barrier'):
            gs = ev.grad(xr, pnew) / scal
            rho_g = 1e3 * core.EPS * float(np.linalg.norm(ev.grad_mag(xr, pnew) / scal))
            ctx.require(np.linalg.norm(gs) < float(st.tol) * (1 + 1e-6) + rho_g, 'C19', 'handover/flag',
                        lambda: 'scaled replica: success reported but scaled gradient norm is %.6g (tol %.6g)'
                        % (np.linalg.norm(gs), float(st.tol)), sig={'driver': 'nes_scaled'})
        if c['family'] not in ('Qc', 'Q+') or c.get('barrier'):
            return
        if not (flag and flag_plain):
            ctx.skip('C19.scaled/one_replica_failed')
            return
        mu = ev.strong_convexity()
        tol = float(st.tol)
        # plain: |g| < tol ; scaled: |S^-1 g| < tol  =>  |g| < tol * max(S)
        bound = (tol + tol * float(np.max(scal))) / mu * (1 + 1e-3) + 1e-10 * (1 + np.linalg.norm(x_plain)) \
            + 2e3 * core.EPS * float(np.linalg.norm(ev.grad_mag(x_plain, pnew))) / mu
        d = float(np.linalg.norm(xr - x_plain))
        ctx.require(d <= bound, 'C19', 'scaled/same_solution',
                    lambda: 'scaled and unscaled replicas differ by %.6g (bound %.6g)' % (d, bound))
        ctx.probe('scaled_compared')


def run_program(program, ctx):
    app = App(program, ctx)
    cfg = program['config']
    ctx.label('%s:n%d:%s' % (cfg['family'], min(cfg['n'], 8), 'F' if cfg['fault_mode'] else 'N'))
    for i, op in enumerate(program['ops']):
        ctx.op_index = i
        ctx.log.add('op', i=i, name=op['op'])
        k = op['op']
        if k == 'solve':
            app.solve(op, i)
        elif k == 'refresh':
            app.refresh(op)
        elif k == 'restart':
            app.restart(op)
        elif k == 'warm_only':
            app.warm_only(op)
        elif k == 'subspace':
            app.subspace(op)
    ctx.count('faults', 'chol_identity_fallback', app.plan.identity_fallbacks) if app.plan.identity_fallbacks else None


def cleanup():
    seams.uninstall()
    # library objects (and whatever they captured at trace time) must not survive a run: a run has to
    # be a pure function of (program, code), otherwise a violation caused by state left over from an
    # earlier run in the same worker does not replay
    if 'lib' in _cache:
        _cache['lib']['objs'].clear()
        if 'al' in _cache['lib']:
            _cache['lib']['al']['objs'].clear()
