"""spg_sim (C05): histories against the real bound-constrained trust-region SPG solver.

Real: optimism.TrustRegionSPG, Objective, WarmStart, SparseCholesky.  Stub: sksparse.cholmod.
In-situ monitors on `project` and `project_onto_tr` (module globals looked up at call time).
"""
import numpy as np

from sim import core, families, seams
from sim.solver_sim import lib as solver_lib


def lib():
    L = solver_lib()
    if 'spg' not in L:
        from optimism import TrustRegionSPG as TR
        L['spg'] = dict(TR=TR)
    return L


def gen_settings(rng, fault_mode):
    s = {}
    if rng.random() < 0.3:
        return s
    if rng.random() < 0.5:
        s['spg_use_nonmonotone'] = bool(rng.random() < 0.5)
    if rng.random() < 0.5:
        s['tr_size'] = float(10.0 ** (rng.uniform(-2, 2) if rng.random() < 0.8 else rng.uniform(-7, -2)))
    if rng.random() < 0.5:
        s['tol'] = float(10.0 ** rng.uniform(-9, -5))
    if rng.random() < 0.4:
        eta1 = float(10.0 ** rng.uniform(-12, -1))
        eta2 = float(eta1 + (0.6 - eta1) * rng.uniform(0.05, 0.9))
        s.update(eta1=eta1, eta2=eta2, eta3=float(eta2 + (0.95 - eta2) * rng.uniform(0.05, 0.95)))
    if rng.random() < 0.3:
        s.update(t1=float(rng.uniform(0.1, 0.8)), t2=float(rng.uniform(1.2, 3.0)))
    if rng.random() < 0.2:
        s['spg_nonmonotone_iter_limit_to_enforce_decrease'] = int(rng.integers(1, 6))
    if rng.random() < 0.1:
        s['use_incremental_objective'] = True
    if rng.random() < 0.12:
        # coarse tolerance together with an initial radius below it (admissible: tr_size and tol are independent)
        s['tol'] = float(10.0 ** rng.uniform(-5, -3))
        s['tr_size'] = float(s['tol'] * 10.0 ** rng.uniform(-2, 0))
    if fault_mode and rng.random() < 0.6:
        r = rng.random()
        if r < 0.35:
            s['max_trust_iters'] = int(rng.choice([1, 2, 4]))
        elif r < 0.6:
            s['max_spg_iters'] = int(rng.choice([1, 2, 5]))
        elif r < 0.8:
            s['min_tr_size'] = float(s.get('tr_size', 2.0) * rng.choice([0.5, 0.1]))
        else:
            s['cauchy_point_max_line_search_iters'] = int(rng.choice([2, 4, 8]))
    return s


def gen_program(rng, prop, tier, run_index):
    fault_mode = bool(rng.random() < 0.45)
    n = int(rng.choice([1, 2, 3, 5, 8, 12], p=[0.1, 0.2, 0.25, 0.2, 0.15, 0.1]))
    if tier == 'quick':
        n = min(n, 8)
    convex = bool(rng.random() < 0.6)
    cfg = {'family': 'Qc' if convex else 'Qi', 'n': n,
           'cond': float(10.0 ** rng.uniform(0, 3 if convex else 5)),
           'cseed': int(rng.integers(0, 2**31)),
           'nneg': 0 if convex else int(rng.integers(0, max(2, n // 2 + 1))), 'nzero': 0 if convex else int(rng.integers(0, 2)),
           'qscale': float(10.0 ** rng.uniform(-3, 0)), 'ascale': float(10.0 ** rng.uniform(-1, 0.5)),
           'wscale': 1.0, 'nonlinear_p': False, 'softplus': bool(rng.random() < 0.5),
           'precond': str(rng.choice(['hess', 'none'])),
           'x0seed': int(rng.integers(0, 2**31)), 'x0scale': float(10.0 ** rng.uniform(-1, 1)),
           'boxseed': int(rng.integers(0, 2**31)),
           'boxkinds': [str(rng.choice(['finite', 'finite', 'lower', 'upper', 'free', 'degenerate'],
                                       p=[0.3, 0.2, 0.15, 0.15, 0.12, 0.08])) for _ in range(n)],
           'start': str(rng.choice(['interior', 'faces', 'vertex'], p=[0.5, 0.3, 0.2])),
           'fault_mode': fault_mode}
    if cfg['nneg'] > 0:
        cfg['qscale'] = max(cfg['qscale'], 1e-2)
        # an unbounded direction needs bounds or the quartic to stay bounded below: quartic does it
    hump = bool((not convex) and rng.random() < 0.6)
    if hump:
        # non-convex box QP in the style "flat direction pushed against a face + stiff direction + negative
        # curvature direction": the projected-gradient arc has a hump, and a capped SPG sub-problem can end
        # with a positive model value
        n = 3
        if rng.random() < 0.5:
            h = [0.0, float(10.0 ** rng.uniform(1, 2.3)), float(-10.0 ** rng.uniform(0, 1))]
            g = [float(10.0 ** rng.uniform(0.8, 1.5)), float(rng.uniform(0.3, 2)), float(rng.uniform(0.3, 2))]
        else:
            h = [0.0, float(rng.uniform(50, 150)), float(-rng.uniform(2, 6))]
            g = [float(rng.uniform(10, 20)), float(rng.uniform(0.7, 1.4)), float(rng.uniform(0.7, 1.4))]
        perm = [int(v) for v in rng.permutation(3)]
        H = np.zeros((3, 3))
        gg = np.zeros(3)
        lb, ub = np.zeros(3), np.zeros(3)
        raw_lb = [0.0, -float(rng.uniform(0.3, 0.7)), -3.0]
        raw_ub = [float('inf'), float('inf'), 2.0]
        for a_, b_ in enumerate(perm):
            H[b_, b_], gg[b_], lb[b_], ub[b_] = h[a_], g[a_], raw_lb[a_], raw_ub[a_]
        cfg.update(n=3, family='Qi', explicit={'H': H.tolist(), 'g': gg.tolist(), 'c3': [0.0] * families.K3,
                                              'T': np.zeros((families.K3, 3)).tolist()},
                   explicit_box={'lb': lb.tolist(), 'ub': ub.tolist(), 'x0': [0.0, 0.0, 0.0]},
                   boxkinds=['finite'] * 3, nneg=1, nzero=1)
    nops = int(rng.integers(1, 4 if tier == 'quick' else 5))
    ops = []
    for k in range(nops):
        r = rng.random()
        if hump and k == 0:
            st = {'tr_size': float(rng.uniform(0.8, 1.3))}
            if rng.random() < 0.9:
                st['max_spg_iters'] = int(rng.choice([1, 1, 2, 5, 6, 11, 12]))
            if rng.random() < 0.3:
                st['spg_use_nonmonotone'] = False
            ops.append({'op': 'spg_min', 'settings': st})
        elif r < 0.55 or k == 0:
            ops.append({'op': 'spg_min', 'settings': gen_settings(rng, fault_mode)})
        elif r < 0.85:
            ops.append({'op': 'spg_solve', 'settings': gen_settings(rng, fault_mode),
                        'dp0': (rng.normal(size=families.M) * float(10.0 ** rng.uniform(-2, 0))).tolist(),
                        'warm': bool(rng.random() < 0.3), 'upd': bool(rng.random() < 0.8),
                        **({'chol': [int(rng.choice([1, 3, 1023]))]} if fault_mode and rng.random() < 0.4 else {})})
        else:
            ops.append({'op': 'restart'})
    return {'engine': 'spg_sim', 'config': cfg, 'ops': ops}


def repair(program):
    return program if program['ops'] else None


def simplify(program):
    cfg = program['config']
    for key, val in (('softplus', False), ('precond', 'hess'), ('start', 'interior')):
        if cfg.get(key) != val:
            yield dict(program, config=dict(cfg, **{key: val}))
    if any(k != 'finite' for k in cfg['boxkinds']):
        yield dict(program, config=dict(cfg, boxkinds=['finite'] * cfg['n']))
    if cfg['n'] > 1:
        yield dict(program, config=dict(cfg, n=cfg['n'] - 1, boxkinds=cfg['boxkinds'][:-1]))
    for i, op in enumerate(program['ops']):
        if op.get('settings'):
            yield _with(program, i, dict(op, settings={}))
            for k in list(op['settings']):
                d = dict(op['settings'])
                d.pop(k)
                yield _with(program, i, dict(op, settings=d))
        if op.get('warm'):
            yield _with(program, i, dict(op, warm=False))
        if op.get('chol'):
            o = dict(op)
            o.pop('chol')
            yield _with(program, i, o)
        if op['op'] == 'spg_solve':
            yield _with(program, i, {'op': 'spg_min', 'settings': op.get('settings', {})})


def _with(program, i, op):
    ops = list(program['ops'])
    ops[i] = op
    return dict(program, ops=ops)


def clamp(y, lb, ub):
    return np.maximum(lb, np.minimum(y, ub))


class App:
    def __init__(self, program, ctx):
        L = lib()
        self.L, self.ctx = L, ctx
        self.cfg = cfg = program['config']
        self.n = n = int(cfg['n'])
        self.TR = TR = L['spg']['TR']
        self.coefs = families.make_coefs(cfg)
        self.ev = families.Evaluator(self.coefs)
        self.jc = families.to_jax_coefs(self.coefs)
        rng = np.random.Generator(np.random.PCG64(int(cfg['x0seed'])))
        self.pnp = [rng.normal(size=families.M) * 0.3, np.zeros(families.M), np.zeros(families.M), None, 0.0, None]
        xc = rng.normal(size=n) * float(cfg['x0scale'])
        rb = np.random.Generator(np.random.PCG64(int(cfg['boxseed'])))
        lb, ub = np.empty(n), np.empty(n)
        for i, kind in enumerate(cfg['boxkinds']):
            c, w = float(rb.normal()), float(abs(rb.normal()) + 0.05) * float(cfg['x0scale'] + 0.5)
            if kind == 'finite':
                lb[i], ub[i] = c - w, c + w
            elif kind == 'lower':
                lb[i], ub[i] = c - w, np.inf
            elif kind == 'upper':
                lb[i], ub[i] = -np.inf, c + w
            elif kind == 'free':
                lb[i], ub[i] = -np.inf, np.inf
            else:
                lb[i], ub[i] = c, c
        if cfg.get('explicit_box'):
            eb = cfg['explicit_box']
            lb, ub = np.asarray(eb['lb'], dtype=float), np.asarray(eb['ub'], dtype=float)
            xc = np.asarray(eb['x0'], dtype=float)
        self.lb, self.ub = lb, ub
        x0 = clamp(xc, lb, ub)
        if cfg['start'] in ('faces', 'vertex'):
            for i in range(n):
                if cfg['start'] == 'vertex' or rb.random() < 0.5:
                    cands = [v for v in (lb[i], ub[i]) if np.isfinite(v)]
                    if cands:
                        x0[i] = cands[int(rb.integers(0, len(cands)))]
        if cfg.get('explicit_box'):
            x0 = clamp(np.asarray(cfg['explicit_box']['x0'], dtype=float), lb, ub)
        self.x = x0
        self.plan = seams.chol_plan(ctx)
        self.cgseam = seams.KrylovSeam(L['WS'].cg, ctx, 'ws_cg')
        seams.patch(L['WS'], 'cg', self.cgseam)
        self.install_monitors()
        self.make_objective()

    def P(self, pnp=None):
        pnp = self.pnp if pnp is None else pnp
        jnp = self.L['jnp']
        return self.L['OBJ'].Params(jnp.asarray(pnp[0]), jnp.asarray(pnp[1]), jnp.asarray(pnp[2]),
                                    self.jc, jnp.asarray(pnp[4], dtype=jnp.float64), None)

    def make_objective(self):
        L = self.L
        jnp = L['jnp']
        key = self.n
        if key not in L['objs']:
            with core.quiet_stdout():
                L['objs'][key] = L['OBJ'].Objective(L['f'], jnp.asarray(self.x), self.P(), None)
        obj = L['objs'][key]
        obj.p = self.P()
        obj.precond = L['SC'].SparseCholesky()
        hess, csc = L['hess'], L['csc']
        obj.precondStrategy = None if self.cfg['precond'] == 'none' else \
            L['OBJ'].PrecondStrategy(lambda x, p: csc(np.asarray(hess(x, p))))
        obj.scaling, obj.invScaling = 1.0, 1.0
        with core.quiet_stdout():
            obj.update_precond(jnp.asarray(self.x))
        self.obj = obj

    # -- monitors on the two projections ------------------------------------------------
    def install_monitors(self):
        TR, ctx = self.TR, self.ctx
        real_project, real_ptr = TR.project, TR.project_onto_tr
        self.in_ptr = 0

        def tau(*vals):
            m = 1.0
            for v in vals:
                v = np.asarray(v, dtype=float)
                v = v[np.isfinite(v)]
                if v.size:
                    m = max(m, float(np.max(np.abs(v))))
            return 4 * core.EPS * m

        def project(x, bounds):
            out = real_project(x, bounds)
            xa, b, o = np.asarray(x, dtype=float), np.asarray(bounds, dtype=float), np.asarray(out, dtype=float)
            if np.all(np.isfinite(xa)):
                want = clamp(xa, b[:, 0], b[:, 1])
                ctx.require(np.array_equal(o, want), 'C05', 'project/closest',
                            lambda: 'projection onto the box is not the clamp: max diff %.3g' % np.max(np.abs(o - want)))
            return out

        def project_onto_tr(x, xk, bounds, trSize):
            out = real_ptr(x, xk, bounds, trSize)
            xa, xka, b, o = (np.asarray(v, dtype=float) for v in (x, xk, bounds, out))
            D = float(trSize)
            if not (np.all(np.isfinite(xa)) and np.all(np.isfinite(xka)) and np.isfinite(D)):
                ctx.skip('C05.project_tr/nonfinite_input')
                return out
            lbb, ubb = b[:, 0], b[:, 1]
            t = tau(o, lbb, ubb)
            feas_k = np.all(xka >= lbb - t) and np.all(xka <= ubb + t)
            if not feas_k:
                ctx.skip('C05.project_tr/centre_infeasible')
                return out
            sig = {'far': bool(np.linalg.norm(xa - xka) > 1e6 * D)}
            ctx.require(np.all(np.isfinite(o)) and np.all(o >= lbb - t) and np.all(o <= ubb + t), 'C05', 'project_tr/in_box',
                        lambda: 'trust-region projection left the box by %.3g' % max(np.max(lbb - o), np.max(o - ubb)), sig=sig)
            dist = float(np.linalg.norm(o - xka))
            # The radius is met by a scalar root find (scipy brentq, default xtol/rtol) on the segment
            # parameter t in [0,1] from the centre to the target, so the point is within
            # (xtol + rtol) * |target - centre| of the sphere (factor 4 for brentq's stopping rule):
            # the code's own declared tolerance.  Measured: overshoot/radius ~ 4e-13 * |target-centre|/radius,
            # 1.1e-5 at a target 2.5e7 radii away.  The bound is vacuous for targets > ~1e11 radii away.
            far = float(np.linalg.norm(xa - xka))
            slack = 4 * (2e-12 + 4 * core.EPS) * far + 8 * core.EPS * (np.linalg.norm(xka) + np.linalg.norm(o))  # + representation error of centre + step
            over = dist / D - 1.0 if D > 0 else 0.0
            ctx.probe('project_tr:overshoot<=1e%d' % max(-16, int(np.ceil(np.log10(max(over, 1e-16))))))
            if slack > 1e-2 * D:
                ctx.skip('C05.project_tr/in_ball_uninformative')
            else:
                ctx.require(dist <= D * (1 + 1e-9) + slack, 'C05', 'project_tr/in_ball',
                            lambda: 'trust-region projection is %.9g from the centre, radius %.9g (target %.3g away, root-find slack %.3g)'
                            % (dist, D, far, slack), sig=sig)
            return out
        seams.patch(TR, 'project', project)
        seams.patch(TR, 'project_onto_tr', project_onto_tr)
        real_banner = TR.print_min_banner

        def banner(realO, modelO, res, modelRes, spgIters, trSize, stepType, willAccept, settings):
            try:
                if float(modelO) > 0:
                    ctx.probe('spg:model_increase')
                    if float(modelO) > 1e-8 * (abs(float(realO)) + float(trSize)):
                        ctx.probe('spg:model_increase_significant')
                    if willAccept:
                        ctx.probe('spg:model_increase_accepted')
                ctx.probe('spg:accepted' if willAccept else 'spg:rejected')
            except Exception:
                pass
            return real_banner(realO, modelO, res, modelRes, spgIters, trSize, stepType, willAccept, settings)
        seams.patch(TR, 'print_min_banner', banner)

    # -- ops ------------------------------------------------------------------------------
    def settings(self, s):
        return self.TR.get_settings(**dict(s, debug_info=False))

    def run_solver(self, op):
        ctx, L, TR = self.ctx, self.L, self.TR
        jnp = L['jnp']
        st = self.settings(op.get('settings') or {})
        pnew = list(self.pnp)
        driver = op['op']
        if driver == 'spg_solve':
            pnew[0] = self.pnp[0] + np.asarray(op['dp0'])
        Pnew = self.P(pnew)
        trace = []
        if any(k.startswith('max_') or k == 'cauchy_point_max_line_search_iters' for k in (op.get('settings') or {})):
            ctx.fault('cap')

        def callback(xk, objective):
            xa = np.array(xk, dtype=float)
            trace.append(xa)
            ctx.log.add('iter', k=len(trace), x=xa)
        x_in = np.array(self.x)
        self.plan.masks = list(op.get('chol', []))
        exc = None
        try:
            with core.quiet_stdout():
                if driver == 'spg_solve':
                    xr, flag = TR.solve(self.obj, jnp.asarray(x_in), Pnew, jnp.asarray(self.lb), jnp.asarray(self.ub), st,
                                        callback=callback, useWarmStart=bool(op.get('warm')), updatePrecond=bool(op.get('upd', True)))
                else:
                    bounds = jnp.column_stack((jnp.asarray(self.lb), jnp.asarray(self.ub)))
                    xr, flag = TR.bound_constrained_trust_region_minimize(self.obj, jnp.asarray(x_in), bounds, st, callback=callback)
        except (core.RunTimeout, core.Violation):
            raise
        except RuntimeError as e:
            if 'No acceptable Cauchy point' in str(e):
                ctx.probe('spg:no_cauchy_point')
                ctx.label('spg:nocauchy')
                self.audit(op, st, pnew, x_in, trace, None, None, driver)
                if driver == 'spg_solve':
                    self.pnp = pnew
                if trace:
                    self.x = clamp(trace[-1], self.lb, self.ub)
                return
            exc = e
        except Exception as e:
            exc = e
        finally:
            self.plan.masks = []
        if exc is not None:
            ctx.violate('C05', 'completes', 'solver raised %r' % exc,
                        sig={'exc': type(exc).__name__, 'warm': bool(op.get('warm'))})
            return
        xr, flag = np.array(xr, dtype=float), bool(flag)
        ctx.log.add('spg_return', flag=flag, x=xr)
        ctx.sim_time += len(trace)
        if trace:
            ctx.nontrivial = True
        self.audit(op, st, pnew, x_in, trace, xr, flag, driver)
        if driver == 'spg_solve':
            ctx.require(all(a is b for a, b in zip(self.obj.p, Pnew)), 'C19', 'handover/objective_p',
                        'SPG driver: objective does not carry the parameters that were passed', sig={'driver': 'spg'})
            self.pnp = pnew
        self.x = clamp(xr, self.lb, self.ub) if core.finite(xr) else x_in
        ctx.label('%s:%s' % (driver, 'T' if flag else 'F'))

    def audit(self, op, st, pnew, x_in, trace, xr, flag, driver):
        ctx, ev, lb, ub = self.ctx, self.ev, self.lb, self.ub
        warm = bool(op.get('warm'))
        sig0 = {'driver': driver, 'warm': warm}
        pts = list(trace) + ([xr] if xr is not None else [])
        # 1 feasibility
        for k, v in enumerate(pts):
            if not core.finite(v):
                ctx.violate('C05', 'finite', 'non-finite iterate reported', sig=sig0)
                return
            t = 4 * core.EPS * np.maximum(1.0, np.maximum(np.abs(v), np.maximum(np.where(np.isfinite(lb), np.abs(lb), 0), np.where(np.isfinite(ub), np.abs(ub), 0))))
            bad = np.maximum(lb - v - t, v - ub - t)
            ctx.require(np.all(bad <= 0), 'C05', 'feasible',
                        lambda: 'iterate %d of %d leaves the box by %.6g in coordinate %d' % (k, len(pts), bad.max(), int(np.argmax(bad))),
                        sig=sig0)
        # 3 returns the last
        if xr is not None:
            last = trace[-1] if trace else x_in
            if trace or not warm:
                ctx.require(np.array_equal(xr, last), 'C05', 'returns_last',
                            lambda: 'returned point differs from the last reported iterate by %.3g' % np.max(np.abs(xr - last)), sig=sig0)
        # 2 descent
        if st.use_incremental_objective:
            ctx.skip('C05.descent/incremental_mode')
        else:
            seq = ([x_in] if not warm else []) + list(trace)
            fprev = mprev = None
            for k, v in enumerate(seq):
                fv, mv = ev.value(v, pnew), ev.value_mag(v, pnew)
                if fprev is not None:
                    rho = 1e3 * core.EPS * (mv + mprev)
                    final_success = bool(flag and k == len(seq) - 1)
                    ctx.require(fv <= fprev + rho, 'C05', 'descent',
                                lambda: 'objective rose from %.17g to %.17g (+%.3g, rounding bound %.3g) at reported iterate %d of %d'
                                % (fprev, fv, fv - fprev, rho, k, len(seq) - 1),
                                sig=dict(sig0, step='converged_at_trial_point' if final_success else 'accepted'))
                fprev, mprev = fv, mv
        if xr is None:
            return
        # 4 flag honesty
        if flag:
            g = ev.grad(xr, pnew)
            opt = float(np.linalg.norm(clamp(xr - g, lb, ub) - xr))
            rho_g = 1e3 * core.EPS * float(np.linalg.norm(ev.grad_mag(xr, pnew)))
            tol = float(st.tol)
            ctx.probe('flag_audit_informative' if rho_g < 0.1 * tol else 'flag_audit_vacuous')
            ctx.require(opt < tol * (1 + 1e-6) + rho_g, 'C05', 'flag',
                        lambda: 'success reported but projected-gradient measure = %.6g >= tol %.6g' % (opt, tol), sig=sig0)
            if driver == 'spg_solve':
                ctx.require(opt < tol * (1 + 1e-6) + rho_g, 'C19', 'handover/flag',
                            lambda: 'SPG driver: success flag does not refer to the new parameters (optimality %.6g, tol %.6g)' % (opt, tol),
                            sig={'driver': 'spg'})
            # 5 convex clause
            if self.cfg['family'] == 'Qc':
                xs = self.reference(xr, pnew)
                if xs is None:
                    ctx.skip('C05.convex/no_verified_reference')
                else:
                    mu = ev.strong_convexity()
                    c = self.coefs
                    Lip = float(np.linalg.norm(c['A'], 2) + np.max(3 * c['q'] * np.maximum(xr**2, xs**2))
                                + np.sum(c['s'] * np.sum(c['R']**2, axis=1)) / 4 + 2 * c['g2'] * (c['h2'] @ c['h2']))
                    bound = (1 + Lip) / mu * (opt + rho_g) * (1 + 1e-3) + 1e-9 * (1 + np.linalg.norm(xs))
                    d = float(np.linalg.norm(xr - xs))
                    ctx.require(d <= bound, 'C05', 'convex/minimiser',
                                lambda: 'returned point is %.6g from the bound-constrained minimiser (bound %.6g)' % (d, bound), sig=sig0)

    def reference(self, x, pnew):
        """Projected Newton (active set by sign of the gradient at the bounds), verified by its own
        projected-gradient residual <= 1e-10."""
        ev, lb, ub = self.ev, self.lb, self.ub
        y = clamp(np.array(x, dtype=float), lb, ub)
        for _ in range(200):
            g = ev.grad(y, pnew)
            res = np.linalg.norm(clamp(y - g, lb, ub) - y)
            if res <= 1e-11 * (1 + np.linalg.norm(ev.grad_mag(y, pnew))):
                return y
            act = ((y <= lb) & (g > 0)) | ((y >= ub) & (g < 0))
            free = ~act
            d = np.zeros_like(y)
            if np.any(free):
                H = ev.hess(y, pnew)[np.ix_(free, free)]
                try:
                    d[free] = -np.linalg.solve(H, g[free])
                except np.linalg.LinAlgError:
                    return None
            t, f0 = 1.0, ev.value(y, pnew)
            while t > 1e-14:
                yn = clamp(y + t * d, lb, ub)
                if ev.value(yn, pnew) <= f0 + 1e-4 * (g @ (yn - y)):
                    break
                t *= 0.5
            else:
                return None
            if np.array_equal(yn, y):
                # try a plain projected gradient step
                yn = clamp(y - 1e-3 * g, lb, ub)
                if np.array_equal(yn, y):
                    return None
            y = yn
        return None

    def restart(self):
        self.ctx.fault('restart')
        self.make_objective()
        self.ctx.label('restart')


def run_program(program, ctx):
    app = App(program, ctx)
    cfg = program['config']
    ctx.label('%s:n%d:%s:%s' % (cfg['family'], cfg['n'], cfg['start'], 'F' if cfg['fault_mode'] else 'N'))
    for i, op in enumerate(program['ops']):
        ctx.op_index = i
        ctx.log.add('op', i=i, name=op['op'])
        if op['op'] in ('spg_min', 'spg_solve'):
            app.run_solver(op)
        else:
            app.restart()


def cleanup():
    from sim import solver_sim
    solver_sim.cleanup()
