"""C20: stateful VTK-writer histories on an in-memory file system with I/O faults.

System under test (real): optimism.VTKWriter.VTKWriter, optimism.Mesh structured /
higher-order mesh construction.  Stub: the file system (`open` as seen by the module).
Reference: an ordered record of what the caller supplied + an independent legacy-VTK parser.
"""
import errno
import os
import re

import numpy as np

from sim import core

PROP = 'C20'

DTYPES = {  # VTK label -> numpy dtype used to generate and to re-read the values
    'DOUBLE': 'float64', 'FLOAT': 'float32', 'INT': 'int32', 'LONG': 'int64',
    'UNSIGNED_CHAR': 'uint8', 'SHORT': 'int16', 'UNSIGNED_INT': 'uint32',
}
KINDS = ('SCALARS', 'VECTORS', 'TENSORS')
NAMES = ('u', 'temp', 'stress', 'f0', 'f1', 'eqps', 'id', 'J')


# ----------------------------------------------------------------------------
# program generation
# ----------------------------------------------------------------------------

def gen_program(rng, prop, tier, run_index):
    order = int(rng.choice([1, 1, 2, 2, 3, 3, 4]))
    nx, ny = int(rng.integers(2, 5)), int(rng.integers(2, 5))
    if order == 4:
        nx, ny = min(nx, 3), min(ny, 3)
    cfg = {'nx': nx, 'ny': ny, 'order': order,
           'xr': [float(rng.uniform(-2, 0)), float(rng.uniform(0.5, 3))],
           'yr': [float(rng.uniform(-1, 0)), float(rng.uniform(0.5, 2))],
           'bubble': False}
    # swarm: which op kinds / faults are enabled in this run
    w = {'add_nodal': rng.random() < 0.85, 'add_cell': rng.random() < 0.7,
         'add_sphere': rng.random() < 0.5, 'add_edges': rng.random() < 0.4,
         'restart': rng.random() < 0.4, 'bad_cell': rng.random() < 0.2}
    faults_on = rng.random() < 0.5
    kinds = [k for k in w if w[k]] or ['add_nodal']
    nops = int(rng.integers(2, 13))
    ops = []
    nsimplex = nx * ny
    for _ in range(nops):
        r = rng.random()
        if r < 0.35 or not kinds:
            ops.append(_gen_write(rng, faults_on))
            continue
        k = str(rng.choice(kinds))
        if k in ('add_nodal', 'add_cell', 'bad_cell'):
            label = str(rng.choice(list(DTYPES)))
            kind = str(rng.choice(KINDS))
            ops.append({'op': k, 'name': str(rng.choice(NAMES)) + ('_c' if k != 'add_nodal' else ''),
                        'kind': kind, 'dtype': label, 'dim': int(rng.integers(2, 4)),
                        'col': bool(kind == 'SCALARS' and rng.random() < 0.3),
                        'style': str(rng.choice(['unit', 'wide', 'tiny', 'ints'])),
                        'vseed': int(rng.integers(0, 2**31))})
        elif k == 'add_sphere':
            ops.append({'op': 'add_sphere', 'x': [float(rng.normal()), float(rng.normal())],
                        'r': float(abs(rng.normal()) + 1e-3)})
        elif k == 'add_edges':
            ne = int(rng.integers(1, 4))
            e = rng.integers(0, nsimplex, size=(ne, 2))
            e[:, 1] = np.where(e[:, 1] == e[:, 0], (e[:, 0] + 1) % nsimplex, e[:, 1])
            ops.append({'op': 'add_edges', 'edges': e.tolist()})
        elif k == 'restart':
            ops.append({'op': 'restart'})
    ops.append(_gen_write(rng, False))
    if rng.random() < 0.6:
        ops.append(_gen_write(rng, False))       # write twice
    return {'engine': 'vtk_sim', 'config': cfg, 'ops': ops}


def _gen_write(rng, faults_on):
    f = None
    if faults_on and rng.random() < 0.45:
        if rng.random() < 0.3:
            f = {'kind': 'io_open_fail'}
        else:
            f = {'kind': 'io_write_fail', 'at': int(rng.integers(1, 40))}
    return {'op': 'write', 'fault': f}


def repair(program):
    return program


def simplify(program):
    """Candidate simplifications, simplest first."""
    cfg = program['config']
    for key, lo in (('order', 1), ('nx', 2), ('ny', 2)):
        if cfg[key] > lo:
            for val in (lo, cfg[key] - 1):
                c = dict(cfg)
                c[key] = val
                c['bubble'] = c['bubble'] and c['order'] >= 2
                p = _clip_edges(dict(program, config=c))
                yield p
    if cfg.get('bubble'):
        yield dict(program, config=dict(cfg, bubble=False))
    if cfg['xr'] != [0.0, 1.0] or cfg['yr'] != [0.0, 1.0]:
        yield dict(program, config=dict(cfg, xr=[0.0, 1.0], yr=[0.0, 1.0]))
    for i, op in enumerate(program['ops']):
        if op['op'] == 'write' and op.get('fault'):
            yield _with_op(program, i, dict(op, fault=None))
        if op['op'] in ('add_nodal', 'add_cell'):
            if op['kind'] != 'SCALARS' or op['dtype'] != 'DOUBLE' or op['style'] != 'ints' or op['col']:
                yield _with_op(program, i, dict(op, kind='SCALARS', dtype='DOUBLE',
                                                style='ints', col=False))
        if op['op'] == 'add_edges' and len(op['edges']) > 1:
            yield _with_op(program, i, dict(op, edges=op['edges'][:1]))
        if op['op'] == 'add_sphere' and (op['x'] != [0.0, 0.0] or op['r'] != 1.0):
            yield _with_op(program, i, dict(op, x=[0.0, 0.0], r=1.0))


def _with_op(program, i, op):
    ops = list(program['ops'])
    ops[i] = op
    return dict(program, ops=ops)


def _clip_edges(program):
    n = program['config']['nx'] * program['config']['ny']
    ops = []
    for op in program['ops']:
        if op['op'] == 'add_edges':
            e = [[a % n, b % n if (b % n) != (a % n) else (a + 1) % n] for a, b in op['edges']]
            op = dict(op, edges=e)
        ops.append(op)
    return dict(program, ops=ops)


# ----------------------------------------------------------------------------
# simulated file system
# ----------------------------------------------------------------------------

class SimFile:
    def __init__(self, fs, name, fail_at):
        self.fs, self.name, self.fail_at = fs, name, fail_at
        self.buf, self.nw, self.closed = [], 0, False

    def write(self, s):
        if self.closed:
            raise ValueError('I/O operation on closed file.')
        self.nw += 1
        self.fs.total_writes += 1
        if self.fail_at is not None and self.nw == self.fail_at:
            self.fs.fired.append('io_write_fail')
            self.fs.partial[self.name] = ''.join(self.buf)
            raise OSError(errno.ENOSPC, 'No space left on device (injected)')
        self.buf.append(str(s))
        return len(s)

    def writelines(self, lines):
        for ln in lines:
            self.write(ln)

    def flush(self):
        pass

    def close(self):
        if not self.closed:
            self.closed = True
            self.fs.files[self.name] = ''.join(self.buf)
            self.fs.closed_count += 1

    def __enter__(self):
        return self

    def __exit__(self, et, ev, tb):
        if et is None:
            self.close()
        else:
            self.closed = True
        return False


class SimFS:
    def __init__(self):
        self.files, self.partial = {}, {}
        self.next_fault = None
        self.fired = []
        self.opens = 0
        self.total_writes = 0
        self.closed_count = 0

    def open(self, name, mode='r', *a, **kw):
        self.opens += 1
        f = self.next_fault
        if f and f['kind'] == 'io_open_fail':
            self.fired.append('io_open_fail')
            raise OSError(errno.EACCES, 'Permission denied (injected)', str(name))
        if 'w' not in mode and 'a' not in mode:
            raise OSError(errno.ENOENT, 'simfs is write only', str(name))
        self.files.pop(name, None)
        return SimFile(self, name, f['at'] if f and f['kind'] == 'io_write_fail' else None)


# ----------------------------------------------------------------------------
# independent legacy-VTK parser
# ----------------------------------------------------------------------------

class ParseError(Exception):
    def __init__(self, clause, msg):
        super().__init__(msg)
        self.clause = clause


_NUM = re.compile(r'^[+-]?(\d+\.?\d*([eE][+-]?\d+)?|\.\d+([eE][+-]?\d+)?|inf|nan)$')
_VTK_TYPES = {'bit', 'unsigned_char', 'char', 'unsigned_short', 'short', 'unsigned_int', 'int',
              'unsigned_long', 'long', 'float', 'double'}


def parse_vtk(text):
    lines = text.split('\n')
    if len(lines) < 5:
        raise ParseError('header', 'file has fewer than 5 lines')
    if not lines[0].startswith('# vtk DataFile Version'):
        raise ParseError('header', 'bad magic line %r' % lines[0])
    if lines[2].strip() != 'ASCII':
        raise ParseError('header', 'format line is %r' % lines[2])
    if lines[3].split() != ['DATASET', 'UNSTRUCTURED_GRID']:
        raise ParseError('header', 'dataset line is %r' % lines[3])
    toks = ' '.join(lines[4:]).split()
    pos = [0]

    def peek():
        return toks[pos[0]] if pos[0] < len(toks) else None

    def take():
        t = peek()
        if t is None:
            raise ParseError('truncated', 'unexpected end of file')
        pos[0] += 1
        return t

    def take_int(what):
        t = take()
        if not re.match(r'^\d+$', t):
            raise ParseError('counts', '%s: expected a count, got %r' % (what, t))
        return int(t)

    def numbers():
        out = []
        while peek() is not None and _NUM.match(peek()):
            out.append(take())
        return out

    ds = {'point_arrays': [], 'cell_arrays': []}
    if take() != 'POINTS':
        raise ParseError('structure', 'expected POINTS')
    npts = take_int('POINTS')
    ptype = take()
    if ptype not in _VTK_TYPES:
        raise ParseError('structure', 'POINTS data type %r' % ptype)
    vals = numbers()
    if len(vals) != 3 * npts:
        raise ParseError('counts', 'POINTS declares %d points but %d coordinates (=%g points) follow'
                         % (npts, len(vals), len(vals) / 3.0))
    ds['points'] = np.array([float(v) for v in vals]).reshape(npts, 3)

    if take() != 'CELLS':
        raise ParseError('structure', 'expected CELLS after POINTS')
    ncells, size = take_int('CELLS n'), take_int('CELLS size')
    vals = numbers()
    if len(vals) != size:
        raise ParseError('counts', 'CELLS declares size %d but %d integers follow' % (size, len(vals)))
    cells, i = [], 0
    while i < len(vals):
        if not re.match(r'^\d+$', vals[i]):
            raise ParseError('structure', 'non-integer in CELLS: %r' % vals[i])
        k = int(vals[i])
        row = vals[i + 1:i + 1 + k]
        if len(row) != k:
            raise ParseError('counts', 'CELLS: last row is short')
        for t in row:
            if not re.match(r'^\d+$', t):
                raise ParseError('structure', 'non-integer node id in CELLS: %r' % t)
        cells.append([int(t) for t in row])
        i += 1 + k
    if len(cells) != ncells:
        raise ParseError('counts', 'CELLS declares %d cells but %d rows are present' % (ncells, len(cells)))
    ds['cells'] = cells

    if take() != 'CELL_TYPES':
        raise ParseError('structure', 'expected CELL_TYPES after CELLS')
    nct = take_int('CELL_TYPES')
    vals = numbers()
    if len(vals) != nct:
        raise ParseError('counts', 'CELL_TYPES declares %d but %d records follow' % (nct, len(vals)))
    if nct != ncells:
        raise ParseError('counts', 'CELL_TYPES %d != CELLS %d' % (nct, ncells))
    ds['cell_types'] = [int(v) for v in vals]

    for c in cells:
        for nid in c:
            if nid >= npts:
                raise ParseError('connectivity', 'cell refers to point %d but only %d points were written'
                                 % (nid, npts))

    section = None
    seen = set()
    while peek() is not None:
        t = take()
        if t in ('POINT_DATA', 'CELL_DATA'):
            if t in seen:
                raise ParseError('structure', 'duplicate %s section' % t)
            seen.add(t)
            n = take_int(t)
            want = npts if t == 'POINT_DATA' else ncells
            if n != want:
                raise ParseError('counts', '%s declares %d but the grid has %d %s'
                                 % (t, n, want, 'points' if t == 'POINT_DATA' else 'cells'))
            section = (t, n)
        elif t in KINDS:
            if section is None:
                raise ParseError('structure', '%s array outside POINT_DATA/CELL_DATA' % t)
            name, dtype = take(), take()
            if dtype not in _VTK_TYPES:
                raise ParseError('structure', 'array %s has unknown data type %r' % (name, dtype))
            ncomp = 1
            if t == 'SCALARS':
                if peek() is not None and re.match(r'^\d+$', peek()) and False:
                    ncomp = take_int('numComp')
                if take() != 'LOOKUP_TABLE':
                    raise ParseError('structure', 'SCALARS %s without LOOKUP_TABLE' % name)
                take()
            per = {'SCALARS': ncomp, 'VECTORS': 3, 'TENSORS': 9}[t]
            vals = numbers()
            if len(vals) != per * section[1]:
                raise ParseError('counts', '%s array %s (%s) has %g records, %s declares %d'
                                 % (t, name, section[0], len(vals) / float(per), section[0], section[1]))
            key = 'point_arrays' if section[0] == 'POINT_DATA' else 'cell_arrays'
            ds[key].append({'name': name, 'kind': t, 'dtype': dtype,
                            'tokens': vals, 'shape': (section[1], per)})
        else:
            raise ParseError('structure', 'unexpected token %r' % t)
    return ds


# ----------------------------------------------------------------------------
# the simulated application: caller + writer + reference model
# ----------------------------------------------------------------------------

def make_values(op, n):
    rng = np.random.Generator(np.random.PCG64(op['vseed']))
    dt = np.dtype(DTYPES[op['dtype']])
    shape = {'SCALARS': (n, 1) if op['col'] else (n,), 'VECTORS': (n, op['dim']),
             'TENSORS': (n, op['dim'], op['dim'])}[op['kind']]
    if dt.kind in 'iu':
        info = np.iinfo(dt)
        lo, hi = (max(info.min, -1000), min(info.max, 1000)) if op['style'] != 'wide' else (info.min, info.max)
        return rng.integers(lo, hi, size=shape, endpoint=True, dtype=np.int64 if dt != np.uint32 else np.int64).astype(dt)
    if op['style'] == 'unit':
        v = rng.normal(size=shape)
    elif op['style'] == 'wide':
        v = rng.normal(size=shape) * 10.0 ** rng.integers(-30, 30, size=shape)
    elif op['style'] == 'tiny':
        v = rng.normal(size=shape) * 1e-12
        v = np.where(rng.random(size=shape) < 0.2, -0.0, v)
    else:
        v = rng.integers(-5, 6, size=shape).astype(float)
    return v.astype(dt)


class Sim:
    def __init__(self, program, ctx):
        import optimism.VTKWriter as VW
        from optimism import Mesh
        self.VW, self.ctx = VW, ctx
        cfg = program['config']
        self.cfg = cfg
        self.mesh = Mesh.construct_structured_mesh(cfg['nx'], cfg['ny'], cfg['xr'], cfg['yr'],
                                                   elementOrder=cfg['order'],
                                                   useBubbleElement=cfg.get('bubble', False))
        self.coords = np.asarray(self.mesh.coords)
        self.conns = np.asarray(self.mesh.conns)
        self.fs = SimFS()
        VW.open = self.fs.open                      # the seam: shadows the builtin in that module
        self.base = os.path.join(core.VERIF_DIR, '.work', 'vtkout-%d' % os.getpid())
        self.adds = []                               # caller-held record of every effective add
        self.new_writer()
        self.last_clean = None                       # bytes of last fault-free write
        self.dirty = True                            # an add happened since last clean write

    def new_writer(self):
        self.w = self.VW.VTKWriter(self.mesh, baseFileName=self.base)
        for op in self.adds:
            self.apply(op, record=False)

    # --- reference model --------------------------------------------------
    def model(self):
        order = self.cfg['order']
        if order == 2:
            out_nodes = np.arange(self.coords.shape[0])
        else:
            out_nodes = np.arange(self.cfg['nx'] * self.cfg['ny'])  # vertices are numbered first
        nodal, cell, spheres, edges = {}, {}, [], []
        for op in self.adds:
            if op['op'] == 'add_nodal':
                nodal[op['name']] = op
            elif op['op'] == 'add_cell':
                cell[op['name']] = op
            elif op['op'] == 'add_sphere':
                spheres.append(op)
            elif op['op'] == 'add_edges':
                edges.extend(op['edges'])
        return out_nodes, nodal, cell, spheres, edges

    def apply(self, op, record=True):
        VW = self.VW
        k = op['op']
        with core.quiet_stdout():
            if k == 'add_nodal':
                v = make_values(op, self.coords.shape[0])
                self.w.add_nodal_field(op['name'], v, VW.VTKFieldType[op['kind']],
                                       VW.VTKDataType[op['dtype']])
            elif k == 'add_cell':
                v = make_values(op, self.conns.shape[0])
                self.w.add_cell_field(op['name'], v, VW.VTKFieldType[op['kind']],
                                      VW.VTKDataType[op['dtype']])
            elif k == 'bad_cell':
                import warnings
                v = make_values(op, self.conns.shape[0] + 1)
                with warnings.catch_warnings():
                    warnings.simplefilter('ignore')
                    self.w.add_cell_field(op['name'], v, VW.VTKFieldType[op['kind']],
                                          VW.VTKDataType[op['dtype']])
                return
            elif k == 'add_sphere':
                self.w.add_sphere(np.array(op['x']), op['r'])
            elif k == 'add_edges':
                self.w.add_contact_edges(np.array(op['edges'], dtype=int))
        if record:
            self.adds.append(op)
            self.dirty = True

    # --- the write op and its oracle ----------------------------------------
    def write(self, op):
        ctx = self.ctx
        import warnings
        fault = op.get('fault')
        self.fs.next_fault = fault
        self.fs.fired = []
        opens0 = self.fs.opens
        fname = self.base + '.vtk'
        raised = None
        with warnings.catch_warnings():
            warnings.simplefilter('ignore')
            try:
                with core.quiet_stdout():
                    self.w.write()
            except OSError as e:
                raised = e
            except core.RunTimeout:
                raise
            except Exception as e:
                self.fs.next_fault = None
                if self.fs.fired:
                    raised = e
                else:
                    ctx.violate(PROP, 'completes', 'write() raised %r with no fault injected' % e,
                                sig={'exc': type(e).__name__})
        self.fs.next_fault = None
        for kind in self.fs.fired:
            ctx.fault(kind)
        if self.fs.opens == opens0:
            # the writer no longer goes through the module-level `open` seam: read the real file
            if os.path.exists(fname):
                with open(fname) as f:
                    self.fs.files[fname] = f.read()
                os.remove(fname)
            ctx.probe('seam_bypassed')
        if self.fs.fired:
            ctx.log.add('write', outcome='faulted', kinds=self.fs.fired)
            ctx.label('write:' + self.fs.fired[0])
            if raised is not None and 'injected' not in str(raised):
                ctx.violate(PROP, 'completes', 'write raised a different OSError after an injected fault: %r' % raised)
            return                                    # partial files are not judged
        if raised is not None:
            ctx.violate(PROP, 'completes', 'write() raised %r with no fault injected' % raised,
                        sig={'exc': type(raised).__name__})
        if fault is not None:
            ctx.probe('fault_not_reached')            # e.g. write_fail@n beyond the number of writes
        text = self.fs.files.get(fname)
        if text is None:
            ctx.violate(PROP, 'completes', 'write() returned normally but no closed file exists',
                        sig={'where': 'close'})
        ctx.log.add('write', outcome='ok', sha=core.arr_digest(np.frombuffer(text.encode(), dtype=np.uint8)),
                    nbytes=len(text))
        ctx.nontrivial = True
        ctx.sim_time += 1
        self.judge(text)
        if not self.dirty and self.last_clean is not None:
            ctx.require(text == self.last_clean, PROP, 'write_twice',
                        lambda: 'two writes with no add in between differ (%d vs %d bytes)'
                        % (len(self.last_clean), len(text)),
                        sig={'spheres': self.has('add_sphere'), 'restart_between': self.restarted_since_clean})
            ctx.probe('write_twice_compared')
        self.last_clean = text
        self.dirty = False
        self.restarted_since_clean = False
        ctx.label('write:ok')

    restarted_since_clean = False

    def has(self, kind):
        return any(o['op'] == kind for o in self.adds)

    def judge(self, text):
        ctx = self.ctx
        out_nodes, nodal, cell, spheres, edges = self.model()
        sig = {'order': min(self.cfg['order'], 3), 'spheres': bool(spheres), 'edges': bool(edges),
               'nodal': bool(nodal), 'cell': bool(cell)}
        try:
            ds = parse_vtk(text)
        except ParseError as e:
            ctx.violate(PROP, 'wellformed/' + e.clause, str(e), sig=dict(sig, parse=e.clause))
        ctx.ok('C20.wellformed')
        # --- points
        want_pts = np.zeros((len(out_nodes) + len(spheres), 3))
        want_pts[:len(out_nodes), :2] = self.coords[out_nodes]
        for i, s in enumerate(spheres):
            want_pts[len(out_nodes) + i, :2] = s['x']
        ctx.require(ds['points'].shape == want_pts.shape and np.array_equal(ds['points'], want_pts),
                    PROP, 'roundtrip/points',
                    lambda: 'points differ: got shape %s want %s' % (ds['points'].shape, want_pts.shape), sig=sig)
        # --- cells
        order = self.cfg['order']
        nel = self.conns.shape[0]
        ctx.require(len(ds['cells']) == nel + len(edges), PROP, 'roundtrip/cells',
                    lambda: 'cell count %d != %d elements + %d contact edges' % (len(ds['cells']), nel, len(edges)), sig=sig)
        pe = self.mesh.parentElement
        vert = np.asarray(pe.vertexNodes)
        for e in range(nel):
            row = ds['cells'][e]
            ct = ds['cell_types'][e]
            if order == 2:
                ok = ct == 22 and len(row) == 6
                if ok:
                    p = ds['points'][row]
                    mids = np.array([(p[0] + p[1]) / 2, (p[1] + p[2]) / 2, (p[2] + p[0]) / 2])
                    scale = np.max(np.abs(p)) + 1e-300
                    ok = set(row[:3]) == set(self.conns[e][vert].tolist()) and \
                        np.max(np.abs(p[3:] - mids)) <= 1e-12 * scale and \
                        sorted(row) == sorted(self.conns[e].tolist()[:6])
            else:
                ok = ct == 5 and len(row) == 3 and row == self.conns[e][vert].tolist()
            ctx.require(ok, PROP, 'roundtrip/cells',
                        lambda: 'element %d written as type %d row %s; mesh conn %s'
                        % (e, ct, row, self.conns[e].tolist()), sig=sig)
        for j, ed in enumerate(edges):
            row, ct = ds['cells'][nel + j], ds['cell_types'][nel + j]
            ctx.require(ct == 3 and row == list(ed), PROP, 'roundtrip/cells',
                        lambda: 'contact edge %d written as type %d row %s, supplied %s' % (j, ct, row, ed), sig=sig)
        # --- arrays
        for key, supplied, nmesh, ntot, sel in (
                ('point_arrays', nodal, len(out_nodes), len(out_nodes) + len(spheres), out_nodes),
                ('cell_arrays', cell, nel, nel + len(edges), np.arange(nel))):
            got = {a['name']: a for a in ds[key]}
            ctx.require(len(got) == len(ds[key]), PROP, 'roundtrip/arrays', 'duplicate array names in ' + key, sig=sig)
            extra = set(got) - set(supplied) - {'sphere_radius'}
            missing = set(supplied) - set(got)
            ctx.require(not extra and not missing, PROP, 'roundtrip/arrays',
                        lambda: '%s: missing %s unexpected %s' % (key, sorted(missing), sorted(extra)), sig=sig)
            for name, op in supplied.items():
                a = got[name]
                VT = self.VW.VTKDataType[op['dtype']].value
                ctx.require(a['kind'] == op['kind'] and a['dtype'] == VT, PROP, 'roundtrip/arrays',
                            lambda: 'array %s written as %s %s, supplied %s %s' % (name, a['kind'], a['dtype'], op['kind'], VT), sig=sig)
                nfull = self.coords.shape[0] if key == 'point_arrays' else nel
                v = make_values(op, nfull)[sel]
                dt = v.dtype
                per = a['shape'][1]
                want = np.zeros((nmesh,) + ((1,) if per == 1 else (3,) if per == 3 else (3, 3)), dtype=dt)
                if op['kind'] == 'SCALARS':
                    want[:, 0] = v.reshape(-1)
                elif op['kind'] == 'VECTORS':
                    want[:, :op['dim']] = v
                else:
                    want[:, :op['dim'], :op['dim']] = v
                want = want.reshape(nmesh, per)
                try:
                    if dt.kind in 'iu':
                        parsed = np.array([int(t) for t in a['tokens']], dtype=object).reshape(ntot, per)[:nmesh]
                        same = np.array_equal(parsed.astype(np.int64), want.astype(np.int64))
                    else:
                        parsed = np.array([float(t) for t in a['tokens']]).astype(dt).reshape(ntot, per)[:nmesh]
                        same = np.array_equal(parsed, want)
                except (ValueError, OverflowError):
                    same = False
                ctx.require(same, PROP, 'roundtrip/values',
                            lambda: 'values of %s array %s do not round-trip' % (key, name),
                            sig=dict(sig, dtype=op['dtype']))
            if 'sphere_radius' in got and key == 'point_arrays':
                a = got['sphere_radius']
                vals = np.array([float(t) for t in a['tokens']])
                ctx.require(len(vals) == ntot and np.array_equal(vals[nmesh:], [s['r'] for s in spheres]),
                            PROP, 'roundtrip/values', 'sphere_radius does not carry the supplied radii', sig=sig)


def run_program(program, ctx):
    sim = Sim(program, ctx)
    ctx.label('order%d' % program['config']['order'])
    for i, op in enumerate(program['ops']):
        ctx.op_index = i
        k = op['op']
        ctx.log.add('op', i=i, kind=k)
        if k == 'write':
            sim.write(op)
        elif k == 'restart':
            sim.new_writer()
            sim.restarted_since_clean = True
            ctx.fault('restart')
            ctx.label('restart')
        else:
            try:
                sim.apply(op)
            except Exception as e:  # valid add_* arguments must be accepted
                ctx.violate(PROP, 'completes', '%s raised %r' % (k, e), sig={'exc': type(e).__name__, 'op': k})
            ctx.label(k + ':' + op.get('kind', '') + ':' + op.get('dtype', ''))


def cleanup():
    try:
        import optimism.VTKWriter as VW
        if 'open' in VW.__dict__:
            del VW.open
    except Exception:
        pass
