"""Worker process: executes simulated runs.  Always started by the driver with the pinned
environment (see core.pinned_env); started as a script, never with -m.

modes
  batch     --prop P --tier T --seed S --start a --step k --count n --budget-s B --out F
  replay    --file replay.json --out F
  minimise  --file candidate.json --out F
"""
import argparse
import json
import os
import sys
import time

sys.path.insert(0, os.path.dirname(os.path.dirname(os.path.abspath(__file__))))

from sim import core, registry  # noqa: E402


def enable_jax_cache():
    d = os.environ.get('VERIF_JAXCACHE')
    if not d:
        return
    try:
        import jax
        jax.config.update('jax_compilation_cache_dir', d)
        jax.config.update('jax_persistent_cache_min_compile_time_secs', float(os.environ.get('VERIF_JAXCACHE_MIN_S', '0.3')))
        jax.config.update('jax_persistent_cache_min_entry_size_bytes', 0)
    except Exception:
        pass


def load_engine(prop):
    enable_jax_cache()
    spec = registry.PROPS[prop]
    return registry.engine_module(spec['engine']), spec


def emit(f, obj):
    f.write(core.dumps(obj) + '\n')
    f.flush()


def batch(a):
    engine, spec = load_engine(a.prop)
    t0 = time.time()
    with open(a.out, 'w') as f:
        emit(f, {'type': 'hello', 'pid': os.getpid()})
        for j in range(a.count):
            i = a.start + j * a.step
            if time.time() - t0 > a.budget_s:
                emit(f, {'type': 'budget', 'next': i})
                break
            emit(f, {'type': 'start', 'run': i})
            rng = core.rng_for(a.seed, a.prop, i)
            program = engine.gen_program(rng, a.prop, a.tier, i)
            t1 = time.time()
            res = core.execute(engine, program, focus=a.prop, watchdog_s=spec['watchdog_s'])
            res.update(type='run', run=i, wall=time.time() - t1, n_ops=len(program['ops']))
            if res['violations'] or res['harness_error'] or a.keep_programs or j < 3:
                res['program'] = program
            emit(f, res)
        emit(f, {'type': 'done', 'wall': time.time() - t0})


def replay(a):
    with open(a.file) as f:
        rp = json.load(f)
    program = rp['program']
    prop = rp['property']
    engine, spec = load_engine(prop)
    res = core.execute(engine, program, focus=prop, watchdog_s=spec['watchdog_s'],
                       keep_log=a.events)
    with open(a.out, 'w') as f:
        emit(f, res)


def fresh_process_runner(prop, spec):
    """Execute a program in a fresh interpreter (needed for session programs: the point of a session is
    the state a process accumulates, so the minimiser's own earlier executions must not leak in)."""
    import subprocess
    import tempfile

    def run(program):
        d = tempfile.mkdtemp(prefix='fp-', dir=os.path.dirname(os.path.abspath(a_out[0])))
        try:
            fin, fout = os.path.join(d, 'in.json'), os.path.join(d, 'out.jsonl')
            with open(fin, 'w') as f:
                f.write(core.dumps({'property': prop, 'program': program}))
            p = subprocess.run([sys.executable, os.path.abspath(__file__), 'replay', '--file', fin, '--out', fout],
                               env=dict(os.environ), stdout=subprocess.DEVNULL, stderr=subprocess.DEVNULL,
                               timeout=spec['watchdog_s'] * (len(program.get('ops', [])) + 1) + 300)
            if p.returncode != 0 or not os.path.exists(fout):
                return None
            with open(fout) as f:
                return json.loads(f.readline())
        except Exception:
            return None
        finally:
            import shutil
            shutil.rmtree(d, ignore_errors=True)
    return run


a_out = [None]


def minimise(a):
    with open(a.file) as f:
        rp = json.load(f)
    prop = rp['property']
    engine, spec = load_engine(prop)
    findings = core.load_known_findings()
    a_out[0] = a.out
    runner = fresh_process_runner(prop, spec) if rp['program'].get('session') else None
    best, nexec = core.minimise(engine, rp['program'], rp['target'], findings, prop,
                                max_exec=a.max_exec, max_s=a.max_s,
                                watchdog_s=spec['watchdog_s'], runner=runner)
    res = runner(best) if runner else core.execute(engine, best, focus=prop, watchdog_s=spec['watchdog_s'])
    if res is None:
        res = {'violations': [], 'digest': '', 'harness_error': 'fresh-process execution failed'}
    with open(a.out, 'w') as f:
        emit(f, {'program': best, 'result': res, 'executions': nexec})


def main():
    ap = argparse.ArgumentParser()
    ap.add_argument('mode')
    ap.add_argument('--prop')
    ap.add_argument('--tier', default='quick')
    ap.add_argument('--seed', type=int, default=0)
    ap.add_argument('--start', type=int, default=0)
    ap.add_argument('--step', type=int, default=1)
    ap.add_argument('--count', type=int, default=1)
    ap.add_argument('--budget-s', type=float, default=60)
    ap.add_argument('--out')
    ap.add_argument('--file')
    ap.add_argument('--events', action='store_true')
    ap.add_argument('--keep-programs', action='store_true')
    ap.add_argument('--max-exec', type=int, default=200)
    ap.add_argument('--max-s', type=float, default=120)
    a = ap.parse_args()
    {'batch': batch, 'replay': replay, 'minimise': minimise}[a.mode](a)


if __name__ == '__main__':
    main()
